package highlight

// Replay hint for highlight.HTMLFragmentFormatter.Format: a stored text with upper-case and multi-byte characters, term
// locations whose analyzed form differs from the stored bytes (lower-cased), fragments over several
// windows: with the marks taken out, the formatted fragment must be exactly the stored bytes of the
// fragment, and every marked span exactly the stored bytes of one location.

import (
	"fmt"
	"strings"
	"testing"
)

func TestVerifReplay(t *testing.T) {
	text := []byte("The Quick brown FÖX jumps over the lazy dog, the other Fox sleeps")
	lower := strings.ToLower(string(text))
	var locs TermLocations
	for _, term := range []string{"quick", "fox", "lazy"} {
		for from := 0; ; {
			i := strings.Index(lower[from:], term)
			if i < 0 {
				break
			}
			locs = append(locs, &TermLocation{Term: term, Start: from + i, End: from + i + len(term)})
			from += i + len(term)
		}
	}
	// "fÖx" does not lower-case to "fox" byte for byte: add it by hand, analyzed form "fox"
	if i := strings.Index(string(text), "FÖX"); i >= 0 {
		locs = append(locs, &TermLocation{Term: "fox", Start: i, End: i + len("FÖX")})
	}
	ordered := make(TermLocations, len(locs))
	copy(ordered, locs)
	for i := range ordered {
		for j := i + 1; j < len(ordered); j++ {
			if ordered[j].Start < ordered[i].Start {
				ordered[i], ordered[j] = ordered[j], ordered[i]
			}
		}
	}
	open, close := "<m>", "</m>"
	f := NewHTMLFragmentFormatterTags("<m>", "</m>")
	for _, win := range [][2]int{{0, len(text)}, {4, 30}, {0, 9}, {16, 21}, {40, len(text)}} {
		frag := &Fragment{Orig: text, Start: win[0], End: win[1]}
		out := f.Format(frag, ordered)
		plain := strings.ReplaceAll(strings.ReplaceAll(out, open, ""), close, "")
		if plain != string(text[win[0]:win[1]]) {
			fmt.Printf("REPLAY-CONFIRMED fragment [%d,%d) of %q formats to %q; without the marks that is %q, the stored bytes are %q\n", win[0], win[1], text, out, plain, text[win[0]:win[1]])
			t.FailNow()
		}
	}
	fmt.Println("REPLAY-NO-PANIC")
}
