package mergeplan

// Replay hint for mergeplan.CalcBudget: the recursive specification of the contract (budgetFrom) written
// in Go and compared with the real function on a grid of sizes, tier widths and growth factors, whole and
// fractional.

import (
	"fmt"
	"math"
	"testing"
)

func verifHintBudgetFrom(total, tier int64, per int, g float64) int {
	if total <= 0 {
		return 0
	}
	in := float64(total) / float64(tier)
	if in < float64(per) {
		return int(math.Ceil(in))
	}
	return per + verifHintBudgetFrom(total-int64(per)*tier, int64(float64(tier)*g), per, g)
}

func TestVerifReplay(t *testing.T) {
	for _, total := range []int64{0, 1, 9, 10, 450, 1000, 123456} {
		for _, first := range []int64{0, 1, 10, 100} {
			for _, per := range []int{0, 1, 4, 10} {
				for _, g := range []float64{0, 1, 1.25, 1.5, 2, 2.5, 10} {
					o := &Options{MaxSegmentsPerTier: per, TierGrowth: g}
					got := CalcBudget(total, first, o)
					f, p, gg := first, per, g
					if f < 1 {
						f = 1
					}
					if p < 1 {
						p = 1
					}
					if gg < 1 {
						gg = 1
					}
					if want := verifHintBudgetFrom(total, f, p, gg); got != want {
						fmt.Printf("REPLAY-CONFIRMED CalcBudget(total=%d, firstTier=%d, {MaxSegmentsPerTier: %d, TierGrowth: %v}) = %d, the tier-by-tier budget is %d\n", total, first, per, g, got, want)
						t.FailNow()
					}
				}
			}
		}
	}
	fmt.Println("REPLAY-NO-PANIC")
}
