package index

// Replay hint for index.KeepNLatestDeletionPolicy.Commit: policies keeping 1..4 snapshots are told about
// epochs 1..12 one by one; after every commit the live epochs must be exactly the newest n committed so
// far (in order), the deletable ones exactly the older ones, and no epoch may be both.

import (
	"fmt"
	"testing"
)

func TestVerifReplay(t *testing.T) {
	for n := 1; n <= 4; n++ {
		p := NewKeepNLatestDeletionPolicy(n)
		for e := uint64(1); e <= 12; e++ {
			p.Commit(&Snapshot{epoch: e, segment: []*segmentSnapshot{{id: e}}})
			var wantLive, wantDel []uint64
			for x := uint64(1); x <= e; x++ {
				if e-x < uint64(n) {
					wantLive = append(wantLive, x)
				} else {
					wantDel = append(wantDel, x)
				}
			}
			if fmt.Sprint(p.liveEpochs) != fmt.Sprint(wantLive) || fmt.Sprint(p.deletableEpochs) != fmt.Sprint(wantDel) {
				fmt.Printf("REPLAY-CONFIRMED keep-%d policy after commits of epochs 1..%d: live %v deletable %v, want live %v deletable %v\n", n, e, p.liveEpochs, p.deletableEpochs, wantLive, wantDel)
				t.FailNow()
			}
		}
	}
	fmt.Println("REPLAY-NO-PANIC")
}
