// Replay hint for index.Writer.introduceMerge: batches, a delete racing with an in-memory merge, then every live id must be found exactly once under its own stored _id and every document number must be distinct
// (a scenario on the real code, written from the property text alone; it passes on the unchanged tree and is
// run only when an obligation of that function fails: a failing scenario is a confirmed failing history).
package index

import (
	"fmt"
	"math"
	"sync/atomic"
	"testing"

	"github.com/RoaringBitmap/roaring"
	segment "github.com/blugelabs/bluge_segment_api"
)

// seedC06cWriter builds a Writer the way OpenWriter does, but without
// starting the introducer / persister / merger goroutines, so the test can
// play the introducer by hand and make the interleaving deterministic.
func seedC06cWriter(t *testing.T) *Writer {
	t.Helper()
	cfg := InMemoryOnlyConfig().
		WithNormCalc(func(_ string, numTerms int) float32 {
			return math.Float32frombits(uint32(numTerms))
		})
	w := &Writer{
		config:         cfg,
		deletionPolicy: cfg.DeletionPolicyFunc(),
		directory:      cfg.DirectoryFunc(),
		closeCh:        make(chan struct{}),
	}
	var err error
	w.segPlugin, err = loadSegmentPlugin(cfg.supportedSegmentPlugins, cfg.SegmentType, cfg.SegmentVersion)
	if err != nil {
		t.Fatal(err)
	}
	if err = w.directory.Setup(false); err != nil {
		t.Fatal(err)
	}
	w.root = &Snapshot{parent: w, refs: 1, creator: "seedC06c"}
	w.nextSegmentID = 1
	return w
}

type seedC06cIndex struct {
	t     *testing.T
	w     *Writer
	epoch uint64
}

func (x *seedC06cIndex) nextEpoch() uint64 {
	x.epoch++
	return x.epoch
}

// batch introduces a batch exactly like Writer.Batch/prepareSegment would,
// except that the introducer is called directly.
func (x *seedC06cIndex) batch(b *Batch) {
	x.t.Helper()
	var seg *segmentWrapper
	if len(b.documents) > 0 {
		var err error
		seg, _, err = x.w.newSegment(b.documents)
		if err != nil {
			x.t.Fatal(err)
		}
	}
	intro := &segmentIntroduction{
		id:        atomic.AddUint64(&x.w.nextSegmentID, 1),
		data:      seg,
		idTerms:   b.ids,
		obsoletes: make(map[uint64]*roaring.Bitmap),
		applied:   make(chan error),
	}
	if err := x.w.introduceSegment(intro, x.nextEpoch()); err != nil {
		x.t.Fatal(err)
	}
}

func seedC06cDoc(id string) *FakeDocument {
	return &FakeDocument{
		NewFakeField("_id", id, true, false, false),
		NewFakeField("body", "common w"+id, true, false, false),
	}
}

func (x *seedC06cIndex) insert(ids ...string) {
	x.t.Helper()
	b := NewBatch()
	for _, id := range ids {
		b.Update(testIdentifier(id), seedC06cDoc(id))
	}
	x.batch(b)
}

func (x *seedC06cIndex) delete(ids ...string) {
	x.t.Helper()
	b := NewBatch()
	for _, id := range ids {
		b.Delete(testIdentifier(id))
	}
	x.batch(b)
}

// lookup returns, for the given id, the stored _id values of every document
// the reader reports for the term _id:id, and their global doc numbers.
func seedC06cLookup(t *testing.T, r *Snapshot, field, term string) (nums []uint64, storedIDs []string) {
	t.Helper()
	itr, err := r.PostingsIterator([]byte(term), field, false, false, false)
	if err != nil {
		t.Fatal(err)
	}
	p, err := itr.Next()
	for err == nil && p != nil {
		n := p.Number()
		nums = append(nums, n)
		var got string
		verr := r.VisitStoredFields(n, func(name string, val []byte) bool {
			if name == "_id" {
				got = string(val)
			}
			return true
		})
		if verr != nil {
			t.Fatal(verr)
		}
		storedIDs = append(storedIDs, got)
		p, err = itr.Next()
	}
	if err != nil {
		t.Fatal(err)
	}
	return nums, storedIDs
}

// check asserts that the reader shows exactly the documents in live, each one
// once, under its own identity.
func (x *seedC06cIndex) check(when string, live, gone []string) {
	x.t.Helper()
	r := x.w.currentSnapshot()
	defer func() { _ = r.Close() }()

	cnt, err := r.Count()
	if err != nil {
		x.t.Fatal(err)
	}
	if cnt != uint64(len(live)) {
		x.t.Errorf("%s: Count() = %d, want %d", when, cnt, len(live))
	}

	seen := map[uint64]string{}
	for _, id := range live {
		nums, stored := seedC06cLookup(x.t, r, "_id", id)
		if len(nums) != 1 {
			x.t.Errorf("%s: id %q found %d times (doc numbers %v), want once", when, id, len(nums), nums)
			continue
		}
		if stored[0] != id {
			x.t.Errorf("%s: looking up id %q yields doc number %d whose stored _id is %q", when, id, nums[0], stored[0])
		}
		if other, dup := seen[nums[0]]; dup {
			x.t.Errorf("%s: ids %q and %q are both reported at doc number %d", when, other, id, nums[0])
		}
		seen[nums[0]] = id
	}
	for _, id := range gone {
		nums, _ := seedC06cLookup(x.t, r, "_id", id)
		if len(nums) != 0 {
			x.t.Errorf("%s: deleted id %q is visible at doc numbers %v", when, id, nums)
		}
	}

	// every hit of a term shared by all documents must load a distinct,
	// live document
	nums, stored := seedC06cLookup(x.t, r, "body", "common")
	if len(nums) != len(live) {
		x.t.Errorf("%s: term shared by all documents has %d hits, want %d", when, len(nums), len(live))
	}
	got := map[string]int{}
	for _, s := range stored {
		got[s]++
	}
	for _, id := range live {
		if got[id] != 1 {
			x.t.Errorf("%s: document %q loaded %d times through the shared term (loaded: %v)", when, id, got[id], stored)
		}
	}
}

func verifHintScenario(t *testing.T) {
	w := seedC06cWriter(t)
	x := &seedC06cIndex{t: t, w: w}

	// three batches -> three in-memory segments A, B, C
	x.insert("a1", "a2", "a3")
	x.insert("b1", "b2")
	x.insert("c1", "c2")
	// a delete hits the segment that will NOT take part in the merge
	x.delete("a2")

	live := []string{"a1", "a3", "b1", "b2", "c1", "c2"}
	x.check("before merge", live, []string{"a2"})

	// in-memory merge of B and C (the real mergeSegmentBases code); the test
	// plays the introducer: a delete of b2 races with the merge (it is
	// introduced after the merged segment was built, before the merge is
	// introduced), then the merge is introduced.
	snap := w.currentSnapshot()
	if len(snap.segment) != 3 {
		t.Fatalf("expected 3 segments at root, got %d", len(snap.segment))
	}
	var sbs []segment.Segment
	var drops []*roaring.Bitmap
	idxs := []int{1, 2}
	for _, i := range idxs {
		sbs = append(sbs, snap.segment[i].segment.Segment)
		drops = append(drops, snap.segment[i].deleted)
	}

	merges := make(chan *segmentMerge)
	done := make(chan struct{})
	go func() {
		defer close(done)
		sm := <-merges
		x.delete("b2")
		w.introduceMerge(sm, x.nextEpoch())
	}()
	newSnap, _, err := w.mergeSegmentBases(merges, snap, sbs, drops, idxs)
	<-done
	if err != nil {
		t.Fatal(err)
	}
	if newSnap == nil {
		t.Fatal("merge introduction was skipped")
	}
	_ = newSnap.Close()
	_ = snap.Close()

	root := w.currentSnapshot()
	desc := ""
	for i, ss := range root.segment {
		desc += fmt.Sprintf(" [seg %d: offset %d, %d docs, %d live]", ss.id, root.offsets[i], ss.segment.Count(), ss.Count())
	}
	_ = root.Close()
	t.Logf("root after merge:%s", desc)

	live = []string{"a1", "a3", "b1", "c1", "c2"}
	x.check("after merge", live, []string{"a2", "b2"})

	// one more batch: still the same logical content plus the new document
	x.insert("d1")
	live = append(live, "d1")
	x.check("after merge and one more batch", live, []string{"a2", "b2"})
}

func TestVerifReplay(t *testing.T) {
	if !t.Run("scenario", verifHintScenario) {
		fmt.Println("REPLAY-CONFIRMED the scenario fails on this tree (messages above)")
		return
	}
	fmt.Println("REPLAY-NO-PANIC")
}
