package index

// Replay hint for index.Snapshot.WriteTo: the executable form of "success only after a successful flush".
// The snapshot is written to a writer that accepts only the first k bytes (every k below the full
// length): WriteTo must report an error, never success for a cut-short file.

import (
	"bytes"
	"errors"
	"fmt"
	"testing"
)

type verifHintShortWriter struct{ left int }

func (w *verifHintShortWriter) Write(p []byte) (int, error) {
	if len(p) > w.left {
		n := w.left
		w.left = 0
		return n, errors.New("injected: no space left")
	}
	w.left -= len(p)
	return len(p), nil
}

func TestVerifReplay(t *testing.T) {
	snap := &Snapshot{epoch: 1}
	var full bytes.Buffer
	if _, err := snap.WriteTo(&full, nil); err != nil {
		t.Skip(err)
	}
	for k := 0; k < full.Len(); k++ {
		if _, err := snap.WriteTo(&verifHintShortWriter{left: k}, nil); err == nil {
			fmt.Printf("REPLAY-CONFIRMED Snapshot.WriteTo reported success although the writer under it took only %d of %d bytes\n", k, full.Len())
			t.FailNow()
		}
	}
	fmt.Println("REPLAY-NO-PANIC")
}
