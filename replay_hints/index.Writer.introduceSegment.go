// Replay hint for index.Writer.introduceSegment: an unsafe batch is acknowledged while the root lock is held by the test; the root a Reader would get at that instant must already contain the batch
// (a scenario on the real code, written from the property text alone; it passes on the unchanged tree and is
// run only when an obligation of that function fails: a failing scenario is a confirmed failing history).
package index

import (
	"fmt"
	"sync/atomic"
	"testing"
	"time"
)

// TestSeedC05bReaderAfterAcknowledgedBatch checks that once Batch has
// returned (unsafe batch mode: the call is acknowledged as soon as the
// introducer has applied it), the root a Reader is handed out from already
// contains that batch.
//
// The interleaving is driven deterministically: the test holds the read side
// of the writer's rootLock, which is exactly the state of the world while any
// reader is inside currentSnapshot(). Nobody can install a new root while the
// read lock is held, so an acknowledged Batch during that time means the
// acknowledgement was sent ahead of the root swap, and whatever Reader() would
// hand out at that instant (s.root, ref-counted, which is all that
// currentSnapshot does) does not reflect the acknowledged batch.
func verifHintScenario(t *testing.T) {
	cfg, cleanup := CreateConfig("TestSeedC05bReaderAfterAcknowledgedBatch")
	defer func() {
		err := cleanup()
		if err != nil {
			t.Log(err)
		}
	}()
	cfg = cfg.WithUnsafeBatches()

	idx, err := OpenWriter(cfg)
	if err != nil {
		t.Fatal(err)
	}
	defer func() {
		err = idx.Close()
		if err != nil {
			t.Fatal(err)
		}
	}()

	// wait until persister and merger have nothing left to do, so that the
	// introducer goroutine is idle in its select when the round starts
	quiesce := func() {
		deadline := time.Now().Add(5 * time.Second)
		for time.Now().Before(deadline) {
			if atomic.LoadUint64(&idx.stats.LastPersistedEpoch) == idx.currentEpoch() {
				time.Sleep(50 * time.Millisecond)
				if atomic.LoadUint64(&idx.stats.LastPersistedEpoch) == idx.currentEpoch() {
					return
				}
			}
			time.Sleep(5 * time.Millisecond)
		}
	}

	const rounds = 3
	for round := 0; round < rounds; round++ {
		quiesce()

		id := fmt.Sprintf("doc-%d", round)
		b := NewBatch()
		b.Update(testIdentifier(id), &FakeDocument{
			NewFakeField("_id", id, true, false, false),
			NewFakeField("name", "test", true, false, true),
		})

		// a reader is in the middle of currentSnapshot()
		idx.rootLock.RLock()

		acked := make(chan error, 1)
		go func() {
			acked <- idx.Batch(b)
		}()

		select {
		case err = <-acked:
			// Batch has been acknowledged while no root could possibly have
			// been installed; look at what a Reader taken now consists of.
			reader := idx.root
			reader.addRef()
			count, _ := reader.Count()
			_, findErr := findNumberByID(reader, id)
			_ = reader.Close()
			idx.rootLock.RUnlock()
			if err != nil {
				t.Fatalf("round %d: batch failed: %v", round, err)
			}
			if count != uint64(round+1) || findErr != nil {
				t.Fatalf("round %d: Batch returned, but the root handed out to a Reader obtained after that "+
					"does not reflect the batch: count %d, expected %d, lookup of %q: %v",
					round, count, round+1, id, findErr)
			}
		case <-time.After(time.Second):
			// the batch is (correctly) not acknowledged before the new root
			// can be installed; let go of the root and wait for it
			idx.rootLock.RUnlock()
			err = <-acked
			if err != nil {
				t.Fatalf("round %d: batch failed: %v", round, err)
			}
		}

		// in all cases, a Reader obtained after Batch returned has the batch
		reader, err := idx.Reader()
		if err != nil {
			t.Fatal(err)
		}
		count, _ := reader.Count()
		_, findErr := findNumberByID(reader, id)
		_ = reader.Close()
		if count != uint64(round+1) || findErr != nil {
			t.Fatalf("round %d: reader after batch: count %d, expected %d, lookup of %q: %v",
				round, count, round+1, id, findErr)
		}
	}
}

func TestVerifReplay(t *testing.T) {
	if !t.Run("scenario", verifHintScenario) {
		fmt.Println("REPLAY-CONFIRMED the scenario fails on this tree (messages above)")
		return
	}
	fmt.Println("REPLAY-NO-PANIC")
}
