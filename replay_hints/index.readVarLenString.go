package index

// Replay hint for index.readVarLenString: the executable form of "refused only for missing bytes". A
// length-prefixed string written by writeVarLenString, followed by 0..12 further bytes, must be read back.

import (
	"bufio"
	"bytes"
	"encoding/binary"
	"fmt"
	"strings"
	"testing"
)

func TestVerifReplay(t *testing.T) {
	for _, l := range []int{0, 1, 2, 3, 9, 10, 127, 128, 4096, 5000} {
		for extra := 0; extra <= 12; extra++ {
			str := strings.Repeat("x", l)
			var buf bytes.Buffer
			if _, err := writeVarLenString(&buf, make([]byte, binary.MaxVarintLen64), str); err != nil {
				t.Skip(err)
			}
			buf.Write(make([]byte, extra))
			_, got, err := readVarLenString(bufio.NewReader(bytes.NewReader(buf.Bytes())))
			if err != nil || got != str {
				fmt.Printf("REPLAY-CONFIRMED readVarLenString on a %d-byte string followed by %d bytes: err=%v, read back %d bytes\n", l, extra, err, len(got))
				t.FailNow()
			}
		}
	}
	fmt.Println("REPLAY-NO-PANIC")
}
