package index

// Replay hint for index.segmentMerge.ProcessSegmentNow: a merged segment of 8 documents with every
// combination of "deleted when the merge started" (subsets of {1,3,5}) and "deleted now" (supersets,
// from {0..7}); the deletes that arrived since the merge started must land, under their new numbers, in
// the merged segment's deleted set, nothing else may be added, the two input bitmaps must stay as they
// were, and the segment must be reported as going away (and taken off the merge record).

import (
	"fmt"
	"testing"

	"github.com/RoaringBitmap/roaring"
)

func TestVerifReplay(t *testing.T) {
	newNums := []uint64{10, 11, 12, 13, 14, 15, 16, 17}
	bm := func(mask int) *roaring.Bitmap {
		if mask < 0 {
			return nil
		}
		b := roaring.NewBitmap()
		for i := 0; i < 8; i++ {
			if mask&(1<<uint(i)) != 0 {
				b.Add(uint32(i))
			}
		}
		return b
	}
	for _, atMerge := range []int{-1, 0, 0x02, 0x0a, 0x2a} {
		for _, extra := range []int{-1, 0, 0x01, 0x90, 0xd5} {
			now := extra
			if extra >= 0 && atMerge > 0 {
				now = extra | atMerge
			}
			old, cur := bm(atMerge), bm(now)
			var oldCopy, curCopy *roaring.Bitmap
			if old != nil {
				oldCopy = old.Clone()
			}
			if cur != nil {
				curCopy = cur.Clone()
			}
			m := &segmentMerge{
				old:           map[uint64]*segmentSnapshot{7: {id: 7, deleted: old}},
				oldNewDocNums: map[uint64][]uint64{7: newNums},
			}
			collected := roaring.NewBitmap()
			collected.Add(99)
			going := m.ProcessSegmentNow(7, &segmentSnapshot{id: 7, deleted: cur}, collected)
			want := roaring.NewBitmap()
			want.Add(99)
			if cur != nil {
				for i := uint32(0); i < 8; i++ {
					if cur.Contains(i) && !(old != nil && old.Contains(i)) {
						want.Add(uint32(newNums[i]))
					}
				}
			}
			_, still := m.old[7]
			same := func(a, b *roaring.Bitmap) bool { return (a == nil && b == nil) || (a != nil && b != nil && a.Equals(b)) }
			if !going || still || !collected.Equals(want) || !same(old, oldCopy) || !same(cur, curCopy) {
				fmt.Printf("REPLAY-CONFIRMED ProcessSegmentNow with deletes at merge start %v and now %v: going-away=%v, still recorded=%v, collected %v (want %v), merge-start bitmap now %v, root bitmap now %v\n", oldCopy, curCopy, going, still, collected, want, old, cur)
				t.FailNow()
			}
		}
	}
	// a segment that was not part of the merge
	m := &segmentMerge{old: map[uint64]*segmentSnapshot{7: {id: 7}}, oldNewDocNums: map[uint64][]uint64{7: newNums}}
	collected := roaring.NewBitmap()
	if m.ProcessSegmentNow(8, &segmentSnapshot{id: 8, deleted: bm(3)}, collected) || !collected.IsEmpty() || len(m.old) != 1 {
		fmt.Printf("REPLAY-CONFIRMED ProcessSegmentNow on a segment that was not merged reported it as going away or touched the collected deletes %v / the record\n", collected)
		t.FailNow()
	}
	fmt.Println("REPLAY-NO-PANIC")
}
