package similarity

// Replay hint for similarity.BM25Scorer.Score: the BM25 term formula
//   w * f / (f + k1*(1 - b + b*dl/avgdl))      (equivalently w - w/(1 + f/(k1*(1-b+b*dl/avgdl))))
// computed directly and compared (relative error 1e-9) on a grid of parameters.

import (
	"fmt"
	"math"
	"testing"
)

func TestVerifReplay(t *testing.T) {
	for _, w := range []float64{0.5, 1, 3.25} {
		for _, k1 := range []float64{0.5, 1.2, 2} {
			for _, bb := range []float64{0, 0.3, 0.75, 1} {
				for _, avg := range []float64{1, 7.5, 100} {
					for _, dl := range []uint32{1, 3, 10, 250} {
						for _, f := range []int{1, 2, 9} {
							s := &BM25Scorer{k1: k1, b: bb, avgDocLen: avg, weight: w}
							got := s.Score(f, float64(math.Float32frombits(dl)))
							want := w * float64(f) / (float64(f) + k1*(1-bb+bb*float64(dl)/avg))
							if math.Abs(got-want) > 1e-9*math.Abs(want) {
								fmt.Printf("REPLAY-CONFIRMED BM25 score for weight=%v k1=%v b=%v avgdl=%v dl=%d freq=%d is %v, the formula gives %v\n", w, k1, bb, avg, dl, f, got, want)
								t.FailNow()
							}
						}
					}
				}
			}
		}
	}
	fmt.Println("REPLAY-NO-PANIC")
}
