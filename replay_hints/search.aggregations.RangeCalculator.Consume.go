package aggregations

// Replay hint for aggregations.RangeCalculator.Consume: disjoint, overlapping and nested ranges, hits with
// zero, one and several values; after each hit every bucket's count must be the number of (hit, value)
// pairs whose value lies in its range [low, high).

import (
	"fmt"
	"math"
	"testing"

	"github.com/blugelabs/bluge/search"
)

type verifHintRangeNumbers struct{ byHit map[int][]float64 }

func (n verifHintRangeNumbers) Fields() []string { return nil }
func (n verifHintRangeNumbers) Numbers(d *search.DocumentMatch) []float64 {
	return n.byHit[d.HitNumber]
}

func TestVerifReplay(t *testing.T) {
	values := map[int][]float64{0: {10}, 1: {}, 2: {45, 70}, 3: {99.5}, 4: nil, 5: {50, 0, 120}, 6: {40}}
	ranges := []*NumericRange{
		{name: "under50", low: 0, high: 50}, {name: "under100", low: 0, high: 100},
		{name: "mid", low: 40, high: 120}, {name: "all", low: math.Inf(-1), high: math.Inf(1)},
		{name: "from100", low: 100, high: 1000},
	}
	agg := Ranges(verifHintRangeNumbers{values})
	for _, r := range ranges {
		agg.AddRange(r)
	}
	c := agg.Calculator().(*RangeCalculator)
	want := make([]uint64, len(ranges))
	for hit := 0; hit < 7; hit++ {
		for _, v := range values[hit] {
			for k, r := range ranges {
				if v >= r.low && v < r.high {
					want[k]++
				}
			}
		}
		c.Consume(&search.DocumentMatch{HitNumber: hit})
		got := make([]uint64, len(ranges))
		for k := range ranges {
			got[k] = c.bucketCalculators[k].Count()
		}
		if fmt.Sprint(got) != fmt.Sprint(want) {
			fmt.Printf("REPLAY-CONFIRMED after hits 0..%d with values %v the range buckets [0,50) [0,100) [40,120) (-Inf,+Inf) [100,1000) count %v, direct counting gives %v\n", hit, values, got, want)
			t.FailNow()
		}
	}
	fmt.Println("REPLAY-NO-PANIC")
}
