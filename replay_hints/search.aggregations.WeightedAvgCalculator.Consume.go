package aggregations

// Replay hint for aggregations.WeightedAvgCalculator.Consume: hits with zero, one and several values and an
// optional weight; after each hit the numerator and the denominator must be the sums over every VALUE seen
// so far (value*weight and weight).

import (
	"fmt"
	"testing"

	"github.com/blugelabs/bluge/search"
)

type verifHintNumbers struct{ byHit map[int][]float64 }

func (n verifHintNumbers) Fields() []string { return nil }
func (n verifHintNumbers) Numbers(d *search.DocumentMatch) []float64 {
	return n.byHit[d.HitNumber]
}

func TestVerifReplay(t *testing.T) {
	values := map[int][]float64{0: {10}, 1: {}, 2: {20, 40}, 3: {30}, 4: nil, 5: {50, 1, 2}}
	weights := map[int][]float64{0: {1}, 1: {4}, 2: {2}, 3: {}, 4: {5}, 5: {3, 9}}
	for _, weighted := range []bool{false, true} {
		c := &WeightedAvgCalculator{src: verifHintNumbers{values}}
		if weighted {
			c.weight = verifHintNumbers{weights}
		}
		num, den := 0.0, 0.0
		for hit := 0; hit < 6; hit++ {
			w := 1.0
			if weighted && len(weights[hit]) > 0 {
				w = weights[hit][0]
			}
			for _, v := range values[hit] {
				num += v * w
				den += w
			}
			c.Consume(&search.DocumentMatch{HitNumber: hit})
			if c.val != num || c.weights != den {
				fmt.Printf("REPLAY-CONFIRMED after hits 0..%d (values %v, weighted=%v) the calculator holds %v/%v, the sums over the values are %v/%v\n", hit, values, weighted, c.val, c.weights, num, den)
				t.FailNow()
			}
		}
	}
	fmt.Println("REPLAY-NO-PANIC")
}
