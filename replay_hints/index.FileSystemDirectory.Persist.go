package index

// Replay hint for index.FileSystemDirectory.Persist: the executable form of its contract on a real
// directory. Item writers of four kinds (honest; reporting a count different from what they wrote;
// failing after a partial write; failing at once), over a fresh name and over an existing longer or
// shorter file: success must leave exactly the bytes written, failure must leave no file of that name
// (or the file that was there before, untouched).

import (
	"bytes"
	"fmt"
	"io"
	"os"
	"path/filepath"
	"testing"
)

type verifHintItem struct {
	data   []byte
	report int64 // count to report (-1: the true count)
	failAt int   // fail after writing this many bytes (-1: never)
}

func (i verifHintItem) WriteTo(w io.Writer, _ chan struct{}) (int64, error) {
	d := i.data
	if i.failAt >= 0 && i.failAt < len(d) {
		d = d[:i.failAt]
	}
	n, err := w.Write(d)
	if err != nil {
		return int64(n), err
	}
	if i.failAt >= 0 {
		return int64(n), fmt.Errorf("injected: item writer fails after %d bytes", n)
	}
	if i.report >= 0 {
		return i.report, nil
	}
	return int64(n), nil
}

func TestVerifReplay(t *testing.T) {
	tmp, err := os.MkdirTemp("", "verif-hint")
	if err != nil {
		t.Skip(err)
	}
	defer os.RemoveAll(tmp)
	d := NewFileSystemDirectory(tmp)
	if err := d.Setup(false); err != nil {
		t.Skip(err)
	}
	content := []byte("0123456789abcdefghij")
	id := uint64(0)
	for _, before := range []int{-1, 0, 5, 40} { // -1: no file of that name yet
		for _, item := range []verifHintItem{
			{content, -1, -1}, {content, 3, -1}, {content, 100, -1}, {content, 0, -1},
			{content, -1, 7}, {content, -1, 0}, {nil, -1, -1},
		} {
			id++
			path := filepath.Join(tmp, d.fileName(ItemKindSegment, id))
			if before >= 0 {
				_ = os.WriteFile(path, bytes.Repeat([]byte{'Z'}, before), 0o600)
			}
			err := d.Persist(ItemKindSegment, id, item, nil)
			got, rerr := os.ReadFile(path)
			what := fmt.Sprintf("Persist over %d existing bytes with an item writer {writes %d bytes, reports %d, fails at %d}", before, len(item.data), item.report, item.failAt)
			if err == nil {
				want := item.data
				if rerr != nil || !bytes.Equal(got, want) {
					fmt.Printf("REPLAY-CONFIRMED %s reported success but the file holds %q (read error %v), want %q\n", what, got, rerr, want)
					t.FailNow()
				}
			} else if rerr == nil && !(before >= 0 && bytes.Equal(got, bytes.Repeat([]byte{'Z'}, before))) {
				fmt.Printf("REPLAY-CONFIRMED %s failed (%v) and left a file of %d bytes behind\n", what, err, len(got))
				t.FailNow()
			}
		}
	}
	fmt.Println("REPLAY-NO-PANIC")
}
