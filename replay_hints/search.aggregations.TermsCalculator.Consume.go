package aggregations

// Replay hint for aggregations.TermsCalculator.Consume: hits with zero, one and several terms; after each
// hit `total` must be the number of hits consumed and every bucket's count the number of hits that carry
// its term.

import (
	"fmt"
	"testing"

	"github.com/blugelabs/bluge/search"
)

type verifHintTerms struct{ byHit map[int][]string }

func (s verifHintTerms) Fields() []string { return nil }
func (s verifHintTerms) Values(d *search.DocumentMatch) [][]byte {
	var rv [][]byte
	for _, t := range s.byHit[d.HitNumber] {
		rv = append(rv, []byte(t))
	}
	return rv
}

func TestVerifReplay(t *testing.T) {
	terms := map[int][]string{0: {"a"}, 1: {}, 2: {"a", "b"}, 3: {"c"}, 4: nil, 5: {"b", "c", "a"}, 6: {"a"}}
	c := NewTermsAggregation(verifHintTerms{terms}, 10).Calculator().(*TermsCalculator)
	want := map[string]uint64{}
	for hit := 0; hit < 7; hit++ {
		for _, t := range terms[hit] {
			want[t]++
		}
		c.Consume(&search.DocumentMatch{HitNumber: hit})
		bad := c.total != hit+1 || len(c.bucketsMap) != len(want)
		for name, n := range want {
			if b := c.bucketsMap[name]; b == nil || b.Count() != n {
				bad = true
			}
		}
		if bad {
			got := map[string]uint64{}
			for name, b := range c.bucketsMap {
				got[name] = b.Count()
			}
			fmt.Printf("REPLAY-CONFIRMED after hits 0..%d with terms %v: total=%d buckets=%v, want total=%d buckets=%v\n", hit, terms, c.total, got, hit+1, want)
			t.FailNow()
		}
	}
	fmt.Println("REPLAY-NO-PANIC")
}
