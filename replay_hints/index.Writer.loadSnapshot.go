package index

// Replay hint for index.Writer.loadSnapshot (used by govc when an obligation of that function fails and
// the solver's model cannot be turned into arguments: the input is a FILE behind the Directory interface).
// Bounded search on the real code: snapshot files of 0..64 bytes (zeros, 0xff, a valid prefix cut short,
// a valid file with trailing bytes) in a file-system directory (default mmap loader; the
// in-memory directory keeps no snapshots); a panic or a crash is a confirmed failure. On a correct tree every file is rejected or loaded.

import (
	"bytes"
	"fmt"
	"io"
	"os"
	"path/filepath"
	"testing"
)

type verifHintBytes []byte

func (b verifHintBytes) WriteTo(w io.Writer, _ chan struct{}) (int64, error) {
	n, err := w.Write(b)
	return int64(n), err
}

func TestVerifReplay(t *testing.T) {
	// a valid empty snapshot, as the index writes it
	var valid bytes.Buffer
	if _, err := (&Snapshot{epoch: 1}).WriteTo(&valid, nil); err != nil {
		t.Skip(err)
	}
	var files [][]byte
	for n := 0; n <= 64; n++ {
		files = append(files, make([]byte, n), bytes.Repeat([]byte{0xff}, n))
		if n < valid.Len() {
			files = append(files, append([]byte{}, valid.Bytes()[:n]...))
		} else {
			files = append(files, append(append([]byte{}, valid.Bytes()...), make([]byte, n-valid.Len())...))
		}
	}
	tmp, err := os.MkdirTemp("", "verif-hint")
	if err != nil {
		t.Skip(err)
	}
	defer os.RemoveAll(tmp)
	try := func(kind string, dir Directory, content []byte) {
		defer func() {
			if r := recover(); r != nil {
				fmt.Printf("REPLAY-CONFIRMED panic in loadSnapshot on a %d-byte snapshot file %x (%s directory): %v\n", len(content), content, kind, r)
				t.Fail()
			}
		}()
		if err := dir.Setup(false); err != nil {
			return
		}
		if err := dir.Persist(ItemKindSnapshot, 1, verifHintBytes(content), nil); err != nil {
			return
		}
		cfg := DefaultConfigWithDirectory(func() Directory { return dir })
		w := &Writer{config: cfg, directory: dir}
		snap, err := w.loadSnapshot(1)
		if err == nil && snap != nil {
			_ = snap.Close()
		}
	}
	for i, f := range files {
		if t.Failed() {
			break
		}
		try("file-system", NewFileSystemDirectory(filepath.Join(tmp, fmt.Sprint(i))), f)
	}
	if !t.Failed() {
		fmt.Println("REPLAY-NO-PANIC")
	}
}
