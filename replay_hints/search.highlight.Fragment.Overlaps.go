package highlight

// Replay hint for highlight.Fragment.Overlaps: every pair of non-empty ranges with ends in 0..6; two
// fragments overlap exactly when their byte ranges [Start, End) intersect.

import (
	"fmt"
	"testing"
)

func TestVerifReplay(t *testing.T) {
	for as := 0; as <= 6; as++ {
		for ae := as + 1; ae <= 6; ae++ {
			for bs := 0; bs <= 6; bs++ {
				for be := bs + 1; be <= 6; be++ {
					a, b := &Fragment{Start: as, End: ae}, &Fragment{Start: bs, End: be}
					want := as < be && bs < ae
					if got := a.Overlaps(b); got != want {
						fmt.Printf("REPLAY-CONFIRMED Fragment[%d,%d).Overlaps(Fragment[%d,%d)) = %v, the ranges %s\n", as, ae, bs, be, got, map[bool]string{true: "intersect", false: "are disjoint"}[want])
						t.FailNow()
					}
				}
			}
		}
	}
	fmt.Println("REPLAY-NO-PANIC")
}
