package search

// Replay hint for search.sortFirstLast.Value: all nine combinations of the two optional flags; the
// stand-in for a missing value is the highest term when direction and placement agree (ascending + last,
// descending + first) and the lowest term otherwise.

import (
	"bytes"
	"fmt"
	"testing"
)

func TestVerifReplay(t *testing.T) {
	tr, fa := true, false
	opts := []*bool{nil, &fa, &tr}
	name := func(b *bool) string {
		if b == nil {
			return "unset"
		}
		return fmt.Sprint(*b)
	}
	for _, desc := range opts {
		for _, first := range opts {
			d := desc != nil && *desc
			f := first != nil && *first
			want := lowTerm
			if d == f {
				want = highTerm
			}
			got := (&sortFirstLast{desc: desc, first: first}).Value(nil)
			if !bytes.Equal(got, want) {
				fmt.Printf("REPLAY-CONFIRMED missing-value stand-in for descending=%s, missing-first=%s is %x, want %x\n", name(desc), name(first), got, want)
				t.FailNow()
			}
		}
	}
	fmt.Println("REPLAY-NO-PANIC")
}
