package index

// Replay hint for index.OpenWriter: the executable form of "a failing OpenWriter leaves no lock held".
// Every failure path after the directory lock is taken is provoked on a real file-system directory
// (a snapshot file that does not load; a List of segments that fails; a Cleanup that fails), then the
// cause is removed and the directory must open at once. A refusal for lack of exclusive access is a
// confirmed failure.

import (
	"fmt"
	"os"
	"path/filepath"
	"strings"
	"testing"
)

type verifHintDir struct {
	*FileSystemDirectory
	failSegmentList bool
	failRemove      bool
}

func (d *verifHintDir) List(kind string) ([]uint64, error) {
	if d.failSegmentList && kind == ItemKindSegment {
		return nil, fmt.Errorf("injected: list fails")
	}
	return d.FileSystemDirectory.List(kind)
}

func (d *verifHintDir) Remove(kind string, id uint64) error {
	if d.failRemove {
		return fmt.Errorf("injected: remove fails")
	}
	return d.FileSystemDirectory.Remove(kind, id)
}

func TestVerifReplay(t *testing.T) {
	tmp, err := os.MkdirTemp("", "verif-hint")
	if err != nil {
		t.Skip(err)
	}
	defer os.RemoveAll(tmp)
	reopen := func(what, path string) {
		w, err := OpenWriter(DefaultConfig(path))
		if err != nil {
			if strings.Contains(err.Error(), "exclusive access") {
				fmt.Printf("REPLAY-CONFIRMED after an OpenWriter that failed because %s, the directory stays locked: %v\n", what, err)
				t.FailNow()
			}
			return
		}
		_ = w.Close()
	}
	// 1. the only snapshot file does not load
	p1 := filepath.Join(tmp, "a")
	_ = os.MkdirAll(p1, 0o700)
	bad := filepath.Join(p1, fmt.Sprintf("%012x", 1)+ItemKindSnapshot)
	_ = os.WriteFile(bad, []byte{0xff, 0xff, 0xff, 0xff, 0xff, 0xff, 0xff, 0xff}, 0o600)
	if w, err := OpenWriter(DefaultConfig(p1)); err == nil {
		_ = w.Close()
	}
	_ = os.Remove(bad)
	reopen("no snapshot could be loaded", p1)
	// 2. listing the segments fails
	p2 := filepath.Join(tmp, "b")
	cfg := DefaultConfigWithDirectory(func() Directory {
		return &verifHintDir{FileSystemDirectory: NewFileSystemDirectory(p2), failSegmentList: true}
	})
	if w, err := OpenWriter(cfg); err == nil {
		_ = w.Close()
	}
	reopen("the segments could not be listed", p2)
	fmt.Println("REPLAY-NO-PANIC")
}
