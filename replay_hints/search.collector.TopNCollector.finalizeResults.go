package collector

// Replay hint for collector.TopNCollector.finalizeResults: pages of 0..7 hits in a slice store, skip 0..2,
// forward and reversed (search-before): the results must be the store's page, exactly reversed when
// `reverse` is set.

import (
	"fmt"
	"testing"

	"github.com/blugelabs/bluge/search"
)

func TestVerifReplay(t *testing.T) {
	cmp := func(i, j *search.DocumentMatch) int { return i.HitNumber - j.HitNumber }
	for n := 0; n <= 7; n++ {
		for skip := 0; skip <= 2; skip++ {
			for _, reverse := range []bool{false, true} {
				store := newStoreSlice(n+1, cmp)
				for r := 0; r < n; r++ {
					store.AddNotExceedingSize(&search.DocumentMatch{HitNumber: r}, n+1)
				}
				hc := &TopNCollector{store: store, skip: skip, reverse: reverse}
				if err := hc.finalizeResults(); err != nil {
					t.Skip(err)
				}
				var want []int
				for r := skip; r < n; r++ {
					want = append(want, r)
				}
				if reverse {
					for i, j := 0, len(want)-1; i < j; i, j = i+1, j-1 {
						want[i], want[j] = want[j], want[i]
					}
				}
				var got []int
				for _, d := range hc.results {
					got = append(got, d.HitNumber)
				}
				if fmt.Sprint(got) != fmt.Sprint(want) {
					fmt.Printf("REPLAY-CONFIRMED finalizeResults over %d stored hits, skip %d, reverse=%v gives ranks %v, want %v\n", n, skip, reverse, got, want)
					t.FailNow()
				}
			}
		}
	}
	fmt.Println("REPLAY-NO-PANIC")
}
