package collector

// Replay hint for the large (heap) store of the top-N collector: pseudo-random insertion orders of hits
// with distinct ranks, store sizes 1..6; every eviction must be the worst-ranked hit held, and Final(skip)
// must be the held hits in ranking order without the first `skip`.

import (
	"fmt"
	"sort"
	"testing"

	"github.com/blugelabs/bluge/search"
)

func TestVerifReplay(t *testing.T) {
	seed := uint64(7)
	rnd := func(n int) int {
		seed = seed*6364136223846793005 + 1442695040888963407
		return int((seed >> 33) % uint64(n))
	}
	cmp := func(i, j *search.DocumentMatch) int { return i.HitNumber - j.HitNumber }
	for round := 0; round < 200; round++ {
		size, skip := 1+rnd(6), rnd(3)
		perm := []int{0, 1, 2, 3, 4, 5, 6, 7, 8, 9, 10, 11}
		for i := len(perm) - 1; i > 0; i-- {
			j := rnd(i + 1)
			perm[i], perm[j] = perm[j], perm[i]
		}
		s := newStoreHeap(size+1, cmp)
		var held []int
		for _, r := range perm {
			ev := s.AddNotExceedingSize(&search.DocumentMatch{HitNumber: r}, size)
			held = append(held, r)
			sort.Ints(held)
			if len(held) > size {
				worst := held[len(held)-1]
				held = held[:len(held)-1]
				if ev == nil || ev.HitNumber != worst {
					got := "nothing"
					if ev != nil {
						got = fmt.Sprintf("rank %d", ev.HitNumber)
					}
					fmt.Printf("REPLAY-CONFIRMED heap store of size %d fed ranks %v: adding %d evicted %s, the worst held is rank %d\n", size, perm, r, got, worst)
					t.FailNow()
				}
			} else if ev != nil {
				fmt.Printf("REPLAY-CONFIRMED heap store of size %d fed ranks %v: adding %d evicted rank %d although the store was not full\n", size, perm, r, ev.HitNumber)
				t.FailNow()
			}
		}
		final, err := s.Final(skip, func(*search.DocumentMatch) error { return nil })
		var got []int
		for _, d := range final {
			got = append(got, d.HitNumber)
		}
		want := []int{}
		if skip < len(held) {
			want = held[skip:]
		}
		if err != nil || fmt.Sprint(got) != fmt.Sprint(append([]int(nil), want...)) && !(len(got) == 0 && len(want) == 0) {
			fmt.Printf("REPLAY-CONFIRMED heap store of size %d fed ranks %v: Final(%d) = %v (err %v), want %v\n", size, perm, skip, got, err, want)
			t.FailNow()
		}
	}
	fmt.Println("REPLAY-NO-PANIC")
}
