package index

// Replay hint for index.readBytes: the executable form of "refused only for missing bytes". A source that
// holds at least n bytes must yield exactly its first n bytes, for n around every buffer size bufio uses.

import (
	"bufio"
	"bytes"
	"fmt"
	"testing"
)

func TestVerifReplay(t *testing.T) {
	for _, n := range []int{0, 1, 15, 16, 17, 4095, 4096, 4097, 5000, 65536, 70000} {
		for _, extra := range []int{0, 1, 7} {
			src := make([]byte, n+extra)
			for i := range src {
				src[i] = byte(i*7 + 1)
			}
			b, err := readBytes(bufio.NewReader(bytes.NewReader(src)), uint64(n))
			if err != nil || !bytes.Equal(b, src[:n]) {
				fmt.Printf("REPLAY-CONFIRMED readBytes(r, %d) on a source of %d bytes: err=%v, %d bytes returned\n", n, len(src), err, len(b))
				t.FailNow()
			}
		}
	}
	fmt.Println("REPLAY-NO-PANIC")
}
