package searcher

// Replay hint for searcher.DisjunctionHeapSearcher.Next (and Advance, which ends in it): clause searchers
// over small document-number lists, every minimum from 0 to 3, 11 to 13 clauses; the documents returned by
// the real searcher are compared with direct counting ("at least min clauses contain the document").

import (
	"fmt"
	"testing"

	"github.com/blugelabs/bluge/search"
	"github.com/blugelabs/bluge/search/similarity"
)

type verifHintList struct {
	docs []uint64
	pos  int
}

func (l *verifHintList) Next(ctx *search.Context) (*search.DocumentMatch, error) {
	if l.pos >= len(l.docs) {
		return nil, nil
	}
	dm := ctx.DocumentMatchPool.Get()
	dm.Number = l.docs[l.pos]
	l.pos++
	return dm, nil
}

func (l *verifHintList) Advance(ctx *search.Context, number uint64) (*search.DocumentMatch, error) {
	for l.pos < len(l.docs) && l.docs[l.pos] < number {
		l.pos++
	}
	return l.Next(ctx)
}
func (l *verifHintList) Close() error               { return nil }
func (l *verifHintList) Count() uint64              { return uint64(len(l.docs)) }
func (l *verifHintList) Min() int                   { return 0 }
func (l *verifHintList) Size() int                  { return 0 }
func (l *verifHintList) DocumentMatchPoolSize() int { return 1 }

func TestVerifReplay(t *testing.T) {
	seed := uint64(1)
	rnd := func(n uint64) uint64 {
		seed = seed*6364136223846793005 + 1442695040888963407
		return (seed >> 33) % n
	}
	for round := 0; round < 300; round++ {
		nClauses := 11 + int(rnd(3))
		min := int(rnd(4))
		lists := make([][]uint64, nClauses)
		count := map[uint64]int{}
		for c := range lists {
			for d := uint64(1); d <= 14; d++ {
				if rnd(4) == 0 {
					lists[c] = append(lists[c], d)
					count[d]++
				}
			}
		}
		var want []uint64
		for d := uint64(1); d <= 14; d++ {
			if count[d] >= min && count[d] > 0 {
				want = append(want, d)
			}
		}
		var clauses []search.Searcher
		for _, l := range lists {
			clauses = append(clauses, &verifHintList{docs: l})
		}
		s, err := newDisjunctionHeapSearcher(clauses, min, similarity.NewCompositeSumScorer(), search.SearcherOptions{}, false)
		if err != nil {
			t.Skip(err)
		}
		ctx := search.NewSearchContext(s.DocumentMatchPoolSize()+64, 0)
		var got []uint64
		for {
			dm, err := s.Next(ctx)
			if err != nil {
				t.Skip(err)
			}
			if dm == nil {
				break
			}
			got = append(got, dm.Number)
		}
		if fmt.Sprint(got) != fmt.Sprint(want) {
			fmt.Printf("REPLAY-CONFIRMED disjunction of %d clauses %v with min %d returned %v, direct counting gives %v\n", nClauses, lists, min, got, want)
			t.FailNow()
		}
	}
	fmt.Println("REPLAY-NO-PANIC")
}
