#!/bin/bash
# usage: seed_eval.sh <prop> <seeddir> [extra props to check...]
# Confirms a seeded change (compiles, suite passes, demo fails with / passes without) in scratch
# copies of /repo, runs the checks against it, and prints a summary. Scratch copies are removed.
set -u
prop=$1; sd=$2; shift 2; props="$prop $*"
export GOFLAGS=-mod=mod GOPROXY=off GOSUMDB=off GOTOOLCHAIN=local
S=$(mktemp -d /tmp/vseed.XXXXXX); B=$(mktemp -d /tmp/vbase.XXXXXX)
rsync -a --exclude .git /repo/ $S/; rsync -a --exclude .git /repo/ $B/
( cd $S && patch -p1 -s < $sd/patch.diff ) || { echo "PATCH DOES NOT APPLY"; rm -rf $S $B; exit 2; }
dir=$(head -1 $sd/demo_test.go | sed -n 's#^// dir: *##p' | awk '{print $1}'); [ -z "$dir" ] && dir=.
cp $sd/demo_test.go $S/$dir/zz_seed_demo_test.go; cp $sd/demo_test.go $B/$dir/zz_seed_demo_test.go
race=""; grep -q "\-race" $sd/notes.md 2>/dev/null && [ "$prop" = "C15" ] && race="-race"
( cd $S && go build ./... ) || { echo "DOES NOT COMPILE"; rm -rf $S $B; exit 2; }
( cd $S && timeout 600 go test $race -count=1 -vet=off ./$dir > $S/_demo.log 2>&1 ); dw=$?
( cd $B && timeout 600 go test $race -count=1 -vet=off ./$dir > $B/_demo.log 2>&1 ); db=$?
rm $S/$dir/zz_seed_demo_test.go
( cd $S && timeout 1500 go test -count=1 -vet=off ./... > $S/_suite.log 2>&1 ); su=$?
echo "demo-with-change exit=$dw (want !=0)  demo-without exit=$db (want 0)  suite-with-change exit=$su (want 0)"
[ $su -ne 0 ] && grep -v "^ok\|no test files" $S/_suite.log | head -5
for p in $props; do
  VERIF_REPO=$S VERIF_OUT=$S/_out ${GOVC_BIN:-/verif/bin/govc} check $p > $S/_chk_$p.log 2>&1; rc=$?
  echo "check $p exit=$rc: $(grep -c '^VIOLATION' $S/_chk_$p.log) violation(s)"
  grep '^VIOLATION' $S/_chk_$p.log | sed "s#$S#/repo#g" | sed 's/replay=[^ ]* //' | cut -c1-230 | head -4
done
rm -rf $S $B
