#!/bin/bash
# usage: mut.sh <prop> <file-relative-to-repo> <sed-expression>   (scratch copy, removed afterwards)
set -u
prop=$1; file=$2; expr=$3
S=$(mktemp -d /tmp/vscratch.XXXXXX)
rsync -a --exclude .git /repo/ $S/
sed -i "$expr" $S/$file
if diff -q /repo/$file $S/$file >/dev/null; then echo "MUTATION DID NOT APPLY"; rm -rf $S; exit 3; fi
( cd $S && GOFLAGS=-mod=mod GOPROXY=off GOSUMDB=off go build ./... ) || { echo "MUTANT DOES NOT COMPILE"; rm -rf $S; exit 4; }
VERIF_REPO=$S VERIF_OUT=$S/_verifout ${GOVC_BIN:-/verif/bin/govc} check $prop | sed "s#$S#/repo#g" | grep -v '^KNOWN' | tail -${TAIL:-6}
rc=${PIPESTATUS[0]}
rm -rf $S
exit $rc
