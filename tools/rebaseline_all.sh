#!/bin/bash
# Re-generates every baseline from the current engine + contracts on the unchanged /repo, then runs every
# registered quick check once; prints one line per property. Run before committing engine or contract changes.
cd /verif
ids=$(python3 -c "import json;print(' '.join(c['property_id'] for c in json.load(open('MANIFEST.json'))['checks']))")
for p in $ids; do
  if [ "$p" = "C18" ]; then VERIF_BASELINE_ALLOW_UNPROVEN=1 VERIF_NO_REPLAY=1 ./bin/govc baseline $p > /tmp/rb_$p.log 2>&1; else ./bin/govc baseline $p > /tmp/rb_$p.log 2>&1; fi
  echo "baseline $p: $(tail -1 /tmp/rb_$p.log | cut -c1-150)"
done
for p in $ids; do
  ./bin/govc check $p > /tmp/rc_$p.log 2>&1; rc=$?
  echo "check $p exit=$rc: $(tail -1 /tmp/rc_$p.log | cut -c1-150)"
done
