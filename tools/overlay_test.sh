#!/bin/bash
# usage: overlay_test.sh <pkgdir-relative-to-repo> <testfile> <-run regexp> [repo]
# Runs an in-package test against the real code without writing into the repository.
pkg=$1; tf=$2; run=$3; repo=${4:-/repo}
T=$(mktemp -d /tmp/vov.XXXXXX)
cp $tf $T/t_test.go
echo "{\"Replace\": {\"$repo/$pkg/zz_verif_replay_test.go\": \"$T/t_test.go\"}}" > $T/ov.json
( cd $repo && GOFLAGS=-mod=mod GOPROXY=off GOSUMDB=off go test -overlay $T/ov.json -vet=off -timeout 120s -count=1 -run "$run" ./$pkg 2>&1 | tail -15 )
rc=${PIPESTATUS[0]}
rm -rf $T
exit $rc
