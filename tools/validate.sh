#!/bin/bash
python3-vt - <<'PY'
import json,jsonschema,glob
jsonschema.validate(json.load(open('/verif/MANIFEST.json')), json.load(open('/root/.vp/MANIFEST.schema.json')))
print('manifest ok')
es=json.load(open('/root/.vp/EVIDENCE.schema.json'))
for f in sorted(glob.glob('/verif/evidence/*.json')):
    jsonschema.validate(json.load(open(f)), es); print('ok', f)
PY
