#!/usr/bin/env python3
"""Regenerates /verif/MANIFEST.json from tools/manifest_src.json (claimed checks) +
properties.jsonl (everything not claimed goes to not_applicable with the stated reason)."""
import json, subprocess, os
V = '/verif'
src = json.load(open(f'{V}/tools/manifest_src.json'))
props = [json.loads(l) for l in open(f'{V}/properties.jsonl')]
checks = []
na = []
for p in props:
    pid = p['id']
    c = src['checks'].get(pid)
    if c:
        checks.append({
            "property_id": pid,
            "quick_cmd": f"/verif/bin/govc check {pid} --tier quick",
            "thorough_cmd": f"/verif/bin/govc check {pid} --tier thorough",
            "evidence_file": f"/verif/evidence/{pid}.json",
            "replay_cmd_template": "/verif/bin/govc replay {path}",
            "engine": "govc",
            "level_claimed": {"category": c.get("category", "proof"), "text": c["text"], "design_ref": c.get("design_ref", "DESIGN.md §4 " + pid)},
            "level_note": c["note"],
            "technique": c.get("technique", "contract-based deductive verification: WP/VC generation over go/ssa of the real functions, contracts in /repo/<pkg>/verif_contracts.go, obligations discharged by z3/cvc5"),
        })
    else:
        na.append({"property_id": pid, "reason": src['not_applicable'].get(pid, "contracts specified in DESIGN.md §4 but not mechanised yet; nothing claimed")})
commits = subprocess.run(['git', '-C', '/repo', 'log', '--format=%H %s'], capture_output=True, text=True).stdout.strip().split('\n')
hooks = [l.split()[0] for l in commits if ' verif:' in ' ' + l.split(' ', 1)[1] or l.split(' ', 1)[1].startswith('verif:')]
m = {
    "version": 1,
    "setup_cmd": "cd /verif/govc && GOFLAGS=-mod=mod GOPROXY=off GOSUMDB=off GOTOOLCHAIN=local go build -o /verif/bin/govc ./cmd/govc",
    "hooks": {
        "guard": "verif",
        "enable": "contract files /repo/<pkg>/verif_contracts.go carry '//go:build verif' and contain comments only; govc reads their //@ lines as text and loads /repo with -tags=verif",
        "baseline_off_cmd": "cd /repo && GOFLAGS=-mod=mod GOPROXY=off GOSUMDB=off go test -json -vet=off -count=1 -timeout 25m ./...",
        "source_commits": hooks,
        "add_only": True,
    },
    "engines": [{"name": "govc", "path": "/verif/govc", "serves_properties": [c["property_id"] for c in checks],
                 "kind_free_text": "verification-condition generator over go/ssa (NaiveForm) of /repo's working tree; contracts as //@ comments; SMT back ends z3 4.8.12, z3 5.1.0, cvc5 1.0.3"}],
    "checks": checks,
    "not_applicable": na,
    "notes": src.get("notes", ""),
}
json.dump(m, open(f'{V}/MANIFEST.json', 'w'), indent=1)
print(len(checks), "checks,", len(na), "not applicable")
