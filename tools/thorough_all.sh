#!/bin/bash
# Runs every registered thorough check once (sequentially) and prints one line per property.
cd /verif
ids=$(python3 -c "import json;print(' '.join(c['property_id'] for c in json.load(open('MANIFEST.json'))['checks']))")
for p in $ids; do
  ./bin/govc check $p --tier thorough > /var/tmp/th_$p.log 2>&1; rc=$?
  echo "thorough $p exit=$rc: $(tail -1 /var/tmp/th_$p.log | cut -c1-150) $(grep -c '^SELFTEST' /var/tmp/th_$p.log) selftest line(s)"
done
