package main

func (x *Exec) inferCandidates(fr *Frame, l *loopRec, st *State, ms *ModSet) []Clause { return nil }

func (x *Exec) houdini(fr *Frame, l *loopRec, entry, head *State, cands []Clause) []Clause { return nil }
