package main

// Houdini-style inference of simple loop invariants (index bounds) for the
// no-panic sweeps: candidates are conjectured, the loop body is executed
// speculatively under the surviving set, and candidates falsified at a back
// edge are dropped until a fixpoint is reached. The survivors are inductive.

import (
	"context"
	"fmt"
	"go/types"
	"os"
	"path/filepath"
	"regexp"
	"strings"

	"golang.org/x/tools/go/ssa"
)

func (x *Exec) wantInfer(fr *Frame, l *loopRec) bool {
	if l.spec != nil && l.spec.Infer {
		return true
	}
	if fr.spec != nil && fr.spec.InferAll {
		return true
	}
	return x.rootSpec != nil && x.rootSpec.InferAll
}

type candidate struct {
	linv
	alive bool
}

func isIntLeaf(v Val) bool {
	return len(v.L) == 1 && (v.S[0].K == SInt || v.S[0].K == SBV) && v.S[0].Bits >= 32
}

// genCandidates conjectures bounds for every integer cell modified by the loop.
func (x *Exec) genCandidates(fr *Frame, l *loopRec, st *State, ms *ModSet) []*candidate {
	var cands []*candidate
	type intCell struct {
		id   int
		name string
	}
	var mod, fixed []intCell
	type lenSrc struct {
		name string
		f    func(st *State) (string, *Sort, bool)
	}
	var lens []lenSrc
	cellName := map[int]string{}
	for v, a := range fr.addrs {
		if al, ok := v.(*ssa.Alloc); ok && a.K == AKCell {
			n := al.Comment
			if n == "" {
				n = al.Name()
			}
			cellName[a.Cell] = n
		}
	}
	for _, id := range sortedCellIDs(st.cells) {
		v := st.cells[id]
		nm, ok := cellName[id]
		if !ok {
			continue
		}
		id := id
		switch {
		case isIntLeaf(v):
			if ms.cells[id] {
				mod = append(mod, intCell{id, nm})
			} else {
				fixed = append(fixed, intCell{id, nm})
			}
		case v.GT != nil && !ms.cells[id]:
			switch v.GT.Underlying().(type) {
			case *types.Slice:
				lens = append(lens, lenSrc{"len(" + nm + ")", func(s *State) (string, *Sort, bool) {
					c, ok := s.cells[id]
					if !ok {
						return "", nil, false
					}
					return c.L[2], c.S[2], true
				}})
			case *types.Basic:
				if v.S[0].K == SStr {
					lens = append(lens, lenSrc{"len(" + nm + ")", func(s *State) (string, *Sort, bool) {
						c, ok := s.cells[id]
						if !ok {
							return "", nil, false
						}
						return x.strLen(c.L[0]), x.idxSort(), true
					}})
				}
			}
		}
	}
	// slice-typed cells modified in the loop: their backing array is nil or was allocated by this activation
	for _, id := range sortedCellIDs(st.cells) {
		v := st.cells[id]
		nm, ok := cellName[id]
		if !ok || v.GT == nil || !ms.cells[id] {
			continue
		}
		if _, isSlice := v.GT.Underlying().(*types.Slice); !isSlice {
			continue
		}
		id := id
		x.birth()
		cands = append(cands, &candidate{linv: linv{name: "fresh-or-nil(base(" + nm + "))", kind: "inferred", eval: func(s *State) (string, error) {
			c, ok := s.cells[id]
			if !ok {
				return "", fmt.Errorf("dead")
			}
			return or(eq(c.L[0], "0"), "(> (birth "+c.L[0]+") "+x.entryNow+")"), nil
		}}, alive: true})
	}
	cellTerm := func(id int) func(s *State) (string, *Sort, bool) {
		return func(s *State) (string, *Sort, bool) {
			c, ok := s.cells[id]
			if !ok {
				return "", nil, false
			}
			return c.L[0], c.S[0], true
		}
	}
	add := func(name string, f func(s *State) (string, error)) {
		cands = append(cands, &candidate{linv: linv{name: name, kind: "inferred", eval: f}, alive: true})
	}
	for _, m := range mod {
		m := m
		get := cellTerm(m.id)
		for _, k := range []int64{0, -1} {
			k := k
			add(fmt.Sprintf("%s >= %d", m.name, k), func(s *State) (string, error) {
				t, so, ok := get(s)
				if !ok {
					return "", fmt.Errorf("dead")
				}
				return x.cmp(">=", t, x.numLit(bigInt(k), so), so), nil
			})
		}
		for _, ls := range lens {
			ls := ls
			for _, op := range []string{"<=", "<"} {
				op := op
				add(fmt.Sprintf("%s %s %s", m.name, op, ls.name), func(s *State) (string, error) {
					t, so, ok := get(s)
					lt, lso, ok2 := ls.f(s)
					if !ok || !ok2 {
						return "", fmt.Errorf("dead")
					}
					return x.cmp(op, x.convert(t, so, lso), lt, lso), nil
				})
			}
		}
		for _, f := range fixed {
			f := f
			getf := cellTerm(f.id)
			for _, op := range []string{"<=", ">="} {
				op := op
				add(fmt.Sprintf("%s %s %s", m.name, op, f.name), func(s *State) (string, error) {
					t, so, ok := get(s)
					ft, fso, ok2 := getf(s)
					if !ok || !ok2 || so.K != fso.K || so.Bits != fso.Bits {
						return "", fmt.Errorf("dead")
					}
					return x.cmp(op, t, ft, so), nil
				})
			}
		}
		for _, m2 := range mod {
			if m2.id == m.id {
				continue
			}
			get2 := cellTerm(m2.id)
			m2 := m2
			add(fmt.Sprintf("%s <= %s", m.name, m2.name), func(s *State) (string, error) {
				t, so, ok := get(s)
				t2, so2, ok2 := get2(s)
				if !ok || !ok2 || so.K != so2.K || so.Bits != so2.Bits {
					return "", fmt.Errorf("dead")
				}
				return x.cmp("<=", t, t2, so), nil
			})
		}
	}
	return cands
}

var getValRe = regexp.MustCompile(`\(\s*([A-Za-z0-9_.$!@]+)\s+(true|false)\s*\)`)

// falsified asks the solver which of the candidates can be false under pc.
// Returns the set of candidate indexes shown falsifiable (in one model) or nil
// if all hold. ok=false when the solver could not decide (then all are dropped).
func (x *Exec) falsified(st *State, terms []string, tag string) (bad map[int]bool, decided bool) {
	budget := 100
	if x.rootSpec != nil && !x.rootSpec.Implicit {
		budget = 400
	}
	if x.inferQueries > budget {
		return nil, false // budget of this function exhausted: remaining candidates are dropped
	}
	names := make([]string, len(terms))
	var defs []string
	for i, t := range terms {
		names[i] = fmt.Sprintf("cand!%d", i)
		defs = append(defs, fmt.Sprintf("(declare-const %s Bool)\n(assert (= %s %s))", names[i], names[i], t))
	}
	goalBody := "(and " + strings.Join(terms, " ") + ")"
	if len(terms) == 1 {
		goalBody = terms[0]
	}
	// go through Emit with a real goal so that quantified hypotheses get instantiated
	txt := x.vc.Emit([]string{st.pc}, goalBody, false)
	txt = strings.Replace(txt, "(check-sat)\n", strings.Join(defs, "\n")+"\n(check-sat)\n(get-value ("+strings.Join(names, " ")+"))\n", 1)
	txt = "(set-option :produce-models true)\n" + txt
	dir := filepath.Join(outDir(), "out", "infer")
	os.MkdirAll(dir, 0o755)
	x.inferN++
	f := filepath.Join(dir, fmt.Sprintf("%s_%s_%d.smt2", sanitize(shortFn(x.rootFn)), tag, x.inferN))
	os.WriteFile(f, []byte(txt), 0o644)
	r := runSolver(context.Background(), inferSolver, f, 30)
	x.inferQueries++
	if os.Getenv("GOVC_DEBUG_INFER") != "" {
		fmt.Fprintf(os.Stderr, "infer %s n=%d -> %s (%.2fs) %s\n", tag, len(terms), r.verdict, r.secs, filepath.Base(f))
	}
	if r.verdict != "unsat" && r.verdict != "sat" && len(terms) > 1 {
		// undecided as a batch (quantified hypotheses): decide each candidate on its own;
		// only a proof (unsat) keeps a candidate
		bad = map[int]bool{}
		for i, t := range terms {
			b2, ok := x.falsified(st, []string{t}, tag+"1")
			if !ok || b2 != nil {
				bad[i] = true
			}
		}
		if len(bad) == 0 {
			return nil, true
		}
		return bad, true
	}
	switch r.verdict {
	case "unsat":
		return nil, true
	case "sat":
		bad = map[int]bool{}
		var other []int
		body := r.out
		if k := strings.Index(body, "("); k >= 0 {
			body = body[k:]
		}
		for _, pair := range sexpList(body) {
			kv := sexpList(pair)
			if len(kv) != 2 {
				continue
			}
			var idx int
			if _, err := fmt.Sscanf(kv[0], "cand!%d", &idx); err != nil {
				continue
			}
			switch strings.TrimSpace(kv[1]) {
			case "true":
			case "false":
				bad[idx] = true
			default:
				other = append(other, idx)
			}
		}
		if len(bad) == 0 {
			// the model leaves some candidates undetermined (quantified definitions): decide those alone
			for _, i := range other {
				if len(terms) == 1 {
					bad[i] = true
					continue
				}
				b2, ok := x.falsified(st, []string{terms[i]}, tag+"1")
				if !ok || b2 != nil {
					bad[i] = true
				}
			}
		}
		if len(bad) == 0 {
			return nil, false
		}
		return bad, true
	}
	return nil, false
}

func (x *Exec) houdini(fr *Frame, l *loopRec, entry *State, ms *ModSet, given []linv) []linv {
	cands := x.genCandidates(fr, l, entry, ms)
	if len(cands) == 0 {
		return nil
	}
	if len(cands) > 60 {
		cands = cands[:60]
	}
	// 1. entry filter
	for {
		var idx []int
		var terms []string
		for i, c := range cands {
			if !c.alive {
				continue
			}
			t, err := c.eval(entry)
			if err != nil {
				c.alive = false
				continue
			}
			idx = append(idx, i)
			terms = append(terms, t)
		}
		if len(terms) == 0 {
			return nil
		}
		bad, ok := x.falsified(entry, terms, "entry")
		if !ok {
			for _, i := range idx {
				cands[i].alive = false
			}
			return nil
		}
		if bad == nil {
			break
		}
		for k := range bad {
			cands[idx[k]].alive = false
		}
	}
	// 2. inductive filter
	for round := 0; round < 12; round++ {
		ns := entry.clone()
		x.havoc(fr, ns, ms, "hd")
		for _, c := range given {
			if t, err := c.eval(ns); err == nil {
				x.assumeIn(ns, t)
			}
		}
		for _, c := range cands {
			if c.alive {
				if t, err := c.eval(ns); err == nil {
					x.assumeIn(ns, t)
				}
			}
		}
		nObl := len(x.obls)
		nUns := len(x.unsup)
		savedOcc := map[string]int{}
		for k, v := range x.occ {
			savedOcc[k] = v
		}
		savedCur := x.curState
		x.speculating++
		backs := x.runRegion(fr, l.head, ns, l.blocks, l)
		x.speculating--
		x.obls = x.obls[:nObl]
		x.unsup = x.unsup[:nUns]
		x.occ = savedOcc
		x.curState = savedCur
		changed := false
		for _, bs := range backs {
			if bs == nil || bs.dead {
				continue
			}
			for {
				var idx []int
				var terms []string
				for i, c := range cands {
					if !c.alive {
						continue
					}
					t, err := c.eval(bs)
					if err != nil {
						c.alive = false
						changed = true
						continue
					}
					idx = append(idx, i)
					terms = append(terms, t)
				}
				if len(terms) == 0 {
					break
				}
				bad, ok := x.falsified(bs, terms, "ind")
				if !ok {
					for _, i := range idx {
						cands[i].alive = false
					}
					changed = true
					break
				}
				if bad == nil {
					break
				}
				for k := range bad {
					cands[idx[k]].alive = false
				}
				changed = true
			}
		}
		if !changed {
			break
		}
		if round == 11 {
			for _, c := range cands {
				c.alive = false
			}
		}
	}
	var out []linv
	for _, c := range cands {
		if c.alive {
			out = append(out, c.linv)
			x.inferredNames = append(x.inferredNames, fmt.Sprintf("loop%d: %s", l.ordinal, c.name))
		}
	}
	return out
}

// inference queries are bounded by a resource limit, not by time, so that the set of
// inferred invariants does not depend on machine load
var inferSolver = solverSpec{"z3-new", func(f string, t float64) []string {
	return []string{"z3-new", "rlimit=2500000", fmt.Sprintf("-T:%d", int(t)+1), f}
}}
