package main

// Pointwise treatment of quantified goals: a goal (forall v. phi(v)) is
// skolemised by the generator, and every universally quantified hypothesis that
// occurs as a positive top-level conjunct of the path condition is instantiated
// at the skolem constants of matching sort. The original hypotheses stay in the
// query, so this only adds consequences: sound, and it turns most loop
// preservation obligations into quantifier-free queries.

import (
	"sort"
	"fmt"
	"strings"
)

// sexpList splits "(a b (c d) e)" into its top-level elements.
func sexpList(s string) []string {
	s = strings.TrimSpace(s)
	if len(s) < 2 || s[0] != '(' || s[len(s)-1] != ')' {
		return nil
	}
	s = s[1 : len(s)-1]
	var out []string
	d := 0
	start := -1
	for i := 0; i < len(s); i++ {
		c := s[i]
		switch {
		case c == '(':
			if d == 0 && start < 0 {
				start = i
			}
			d++
		case c == ')':
			d--
			if d == 0 {
				out = append(out, s[start:i+1])
				start = -1
			}
		case c == ' ' || c == '\n' || c == '\t':
			if d == 0 && start >= 0 {
				out = append(out, s[start:i])
				start = -1
			}
		default:
			if d == 0 && start < 0 {
				start = i
			}
		}
	}
	if start >= 0 {
		out = append(out, s[start:])
	}
	return out
}

type binder struct{ name, sort string }

// parseForall: "(forall ((a S) (b T)) body)" -> binders, body
func parseForall(t string) ([]binder, string, bool) {
	if !strings.HasPrefix(t, "(forall ") {
		return nil, "", false
	}
	parts := sexpList(t)
	if len(parts) != 3 {
		return nil, "", false
	}
	var bs []binder
	for _, b := range sexpList(parts[1]) {
		bb := sexpList(b)
		if len(bb) != 2 {
			return nil, "", false
		}
		bs = append(bs, binder{bb[0], bb[1]})
	}
	body := parts[2]
	// strip (! body :pattern ...)
	if strings.HasPrefix(body, "(! ") {
		pp := sexpList(body)
		if len(pp) >= 2 {
			body = pp[1]
		}
	}
	return bs, body, true
}

func (vc *VC) positiveForalls(term string, seen map[string]bool, out *[]string) {
	term = strings.TrimSpace(term)
	if seen[term] {
		return
	}
	seen[term] = true
	if d, ok := vc.byName[term]; ok {
		if d.Body != "" {
			vc.positiveForalls(d.Body, seen, out)
		}
		return
	}
	if strings.HasPrefix(term, "(and ") {
		for _, c := range sexpList(term)[1:] {
			vc.positiveForalls(c, seen, out)
		}
		return
	}
	if strings.HasPrefix(term, "(forall ") {
		*out = append(*out, term)
	}
}

func substVar(body, name, repl string) string {
	// bound-variable names are unique (q!name!N), plain token replacement is safe
	var b strings.Builder
	i := 0
	for i < len(body) {
		j := strings.Index(body[i:], name)
		if j < 0 {
			b.WriteString(body[i:])
			break
		}
		j += i
		end := j + len(name)
		okL := j == 0 || strings.ContainsRune(" ()", rune(body[j-1]))
		okR := end == len(body) || strings.ContainsRune(" ()", rune(body[end]))
		b.WriteString(body[i:j])
		if okL && okR {
			b.WriteString(repl)
		} else {
			b.WriteString(name)
		}
		i = end
	}
	return b.String()
}

// conjunctForalls returns the universally quantified top-level conjuncts of a term.
func conjunctForalls(body string, out *[]string) {
	body = strings.TrimSpace(body)
	if strings.HasPrefix(body, "(and ") {
		for _, c := range sexpList(body)[1:] {
			conjunctForalls(c, out)
		}
		return
	}
	if strings.HasPrefix(body, "(=> ") {
		// (=> g (forall xs b)) is (forall xs (=> g b)) when g is quantifier-free (binder names are unique)
		p := sexpList(body)
		if len(p) == 3 && !strings.Contains(p[1], "(forall ") && !strings.Contains(p[1], "(exists ") && strings.Contains(p[2], "(forall ") {
			var inner []string
			conjunctForalls(p[2], &inner)
			for _, fa := range inner {
				fp := sexpList(fa)
				if _, b, ok := parseForall(fa); ok && len(fp) == 3 {
					*out = append(*out, "(forall "+fp[1]+" (=> "+p[1]+" "+b+"))")
				}
			}
		}
		return
	}
	if strings.HasPrefix(body, "(forall ") {
		*out = append(*out, body)
	}
}

func instances(fa string, sks []skolem) []string {
	bs, body, ok := parseForall(fa)
	if !ok {
		return nil
	}
	insts := []string{body}
	for _, b := range bs {
		var next []string
		for _, in := range insts {
			for _, s := range sks {
				if s.sort == b.sort {
					next = append(next, substVar(in, b.name, s.name))
				}
			}
		}
		insts = next
		if len(insts) > 32 {
			insts = insts[:32]
		}
	}
	return insts
}

type skolem struct{ name, sort string }

// skolemiseGoal strips the universal quantifiers of the goal that are in positive position at its
// head: leading ones, and those at the head of the consequent of an implication.
func (vc *VC) skolemiseGoal(goal string) (string, []skolem, []string) {
	var decls []string
	var sks []skolem
	var strip func(g string, depth int) string
	strip = func(g string, depth int) string {
		for {
			bs, body, ok := parseForall(g)
			if !ok {
				break
			}
			for _, b := range bs {
				vc.n++
				n := fmt.Sprintf("sk!%d", vc.n)
				decls = append(decls, "(declare-const "+n+" "+b.sort+")")
				sks = append(sks, skolem{n, b.sort})
				body = substVar(body, b.name, n)
			}
			g = body
		}
		if depth < 4 && strings.HasPrefix(g, "(=> ") {
			if p := sexpList(g); len(p) == 3 && (strings.HasPrefix(p[2], "(forall ") || strings.HasPrefix(p[2], "(=> ")) {
				return "(=> " + p[1] + " " + strip(p[2], depth+1) + ")"
			}
		}
		return g
	}
	g := strip(goal, 0)
	return g, sks, decls
}

// defInstances: for every needed definition D whose body has a universally
// quantified conjunct phi, (=> D phi[sk]) is a valid consequence.
func (vc *VC) defInstances(needed map[string]bool, sks []skolem) []string {
	var out []string
	for _, d := range vc.defs {
		if !needed[d.Name] || d.Body == "" || d.Sort != "Bool" || !strings.Contains(d.Body, "(forall ") {
			continue
		}
		var fas []string
		conjunctForalls(d.Body, &fas)
		for _, fa := range fas {
			for _, in := range instances(fa, sks) {
				out = append(out, "(=> "+d.Name+" "+in+")")
			}
		}
	}
	return out
}

// pointwise rewrites (hyps, goal) as described above.
func (vc *VC) pointwise(hyps []string, goal string) ([]string, string, []string) {
	var decls []string
	type sk struct{ name, sort string }
	var sks []sk
	g := goal
	for {
		bs, body, ok := parseForall(g)
		if !ok {
			break
		}
		for _, b := range bs {
			vc.n++
			n := fmt.Sprintf("sk!%d", vc.n)
			decls = append(decls, "(declare-const "+n+" "+b.sort+")")
			sks = append(sks, sk{n, b.sort})
			body = substVar(body, b.name, n)
		}
		g = body
		// descend through implication consequents: (=> a (forall ...)) stays as is
	}
	if len(sks) == 0 {
		return hyps, goal, nil
	}
	var fas []string
	seen := map[string]bool{}
	for _, h := range hyps {
		vc.positiveForalls(h, seen, &fas)
	}
	extra := append([]string{}, hyps...)
	for _, fa := range fas {
		bs, body, ok := parseForall(fa)
		if !ok {
			continue
		}
		// all assignments of skolems of matching sort to the binders (bounded)
		insts := []string{body}
		for _, b := range bs {
			var next []string
			for _, in := range insts {
				for _, s := range sks {
					if s.sort == b.sort {
						next = append(next, substVar(in, b.name, s.name))
					}
				}
			}
			insts = next
			if len(insts) > 32 {
				insts = insts[:32]
			}
		}
		extra = append(extra, insts...)
	}
	return extra, g, decls
}

// ---- term-based instantiation for array-indexed hypotheses ----

// arraySort infers the SMT sort string of an array-valued term, "" if unknown.
func (vc *VC) arraySort(t string) string {
	t = strings.TrimSpace(t)
	if d, ok := vc.byName[t]; ok {
		return d.Sort
	}
	if strings.HasPrefix(t, "(select ") {
		p := sexpList(t)
		if len(p) == 3 {
			s := vc.arraySort(p[1])
			sp := sexpList(s)
			if len(sp) == 3 && sp[0] == "Array" {
				return sp[2]
			}
		}
		return ""
	}
	if strings.HasPrefix(t, "(store ") {
		p := sexpList(t)
		if len(p) == 4 {
			return vc.arraySort(p[1])
		}
	}
	if strings.HasPrefix(t, "(ite ") {
		p := sexpList(t)
		if len(p) == 4 {
			return vc.arraySort(p[2])
		}
	}
	return ""
}

// forEachSelect calls f(arr, idx) for every (select arr idx) in text.
func forEachSelect(text string, f func(arr, idx string)) {
	i := 0
	for {
		j := strings.Index(text[i:], "(select ")
		if j < 0 {
			return
		}
		j += i
		// find matching paren
		d := 0
		end := -1
		for k := j; k < len(text); k++ {
			if text[k] == '(' {
				d++
			} else if text[k] == ')' {
				d--
				if d == 0 {
					end = k
					break
				}
			}
		}
		if end < 0 {
			return
		}
		p := sexpList(text[j : end+1])
		if len(p) == 3 {
			f(p[1], p[2])
		}
		i = j + 8
	}
}

// keyKind tells what the keys of an array-valued term are: "r" (object references: field maps,
// map contents, pointees, ghost maps) or "e" (positions in an element array). Both are SMT Int;
// keeping them apart stops references being tried as positions and vice versa.
func (vc *VC) keyKind(arr string) string {
	arr = strings.TrimSpace(arr)
	for depth := 0; depth < 8; depth++ {
		switch {
		case strings.HasPrefix(arr, "(select "):
			return "e"
		case strings.HasPrefix(arr, "(store "), strings.HasPrefix(arr, "(ite "):
			p := sexpList(arr)
			if len(p) < 3 {
				return "e"
			}
			if p[0] == "store" {
				arr = p[1]
			} else {
				arr = p[2]
			}
			continue
		case strings.HasPrefix(arr, "H$"), strings.HasPrefix(arr, "MD$"), strings.HasPrefix(arr, "MV$"), strings.HasPrefix(arr, "P$"), strings.HasPrefix(arr, "G$"), strings.HasPrefix(arr, "E$"):
			return "r"
		}
		if d, ok := vc.byName[arr]; ok && d.Body != "" && (strings.HasPrefix(arr, "m!") || strings.HasPrefix(d.Body, "(ite ") || strings.HasPrefix(d.Body, "(store ")) {
			arr = d.Body
			continue
		}
		return "e"
	}
	return "e"
}

// cancelSub builds (sub g off), simplified to t when g is syntactically (add off t) or (add t off).
func cancelSub(sub, add, g, off string) string {
	gp := sexpList(g)
	if len(gp) == 3 && gp[0] == add {
		if gp[1] == off {
			return gp[2]
		}
		if gp[2] == off {
			return gp[1]
		}
	}
	return "(" + sub + " " + g + " " + off + ")"
}

// termInstances instantiates universally quantified conjuncts at index terms
// that occur in array reads of the quantifier-free part of the query.
func (vc *VC) termInstances(needed map[string]bool, hyps []string, goal string, sks []skolem) []string {
	// 1. ground index terms by key sort
	ground := map[string]map[string]bool{} // key sort -> terms
	addGround := func(text string) {
		forEachSelect(text, func(arr, idx string) {
			if strings.Contains(idx, "q!") || strings.Contains(idx, "j!") || strings.Contains(idx, "i!") {
				return
			}
			s := vc.arraySort(arr)
			sp := sexpList(s)
			if len(sp) != 3 || sp[0] != "Array" {
				return
			}
			k := sp[1] + "/" + vc.keyKind(arr)
			if ground[k] == nil {
				ground[k] = map[string]bool{}
			}
			ground[k][idx] = true
		})
	}
	stripQ := func(body string) string {
		// drop quantified sub-terms so their bound indexes are not collected
		for {
			k := strings.Index(body, "(forall ")
			if k < 0 {
				k = strings.Index(body, "(exists ")
			}
			if k < 0 {
				return body
			}
			d := 0
			end := len(body) - 1
			for m := k; m < len(body); m++ {
				if body[m] == '(' {
					d++
				} else if body[m] == ')' {
					d--
					if d == 0 {
						end = m
						break
					}
				}
			}
			body = body[:k] + "true" + body[end+1:]
		}
	}
	for _, d := range vc.defs {
		if needed[d.Name] && d.Body != "" {
			addGround(stripQ(d.Body))
		}
	}
	for _, h := range hyps {
		addGround(stripQ(h))
	}
	addGround(stripQ(goal))
	// 2. quantified conjuncts
	var out []string
	emit := func(guard, fa string) {
		bs, body, ok := parseForall(fa)
		if !ok || len(bs) == 0 || len(bs) > 3 {
			return
		}
		// candidate terms per binder: ground index terms of the array reads the binder occurs in
		candsPer := make([][]string, len(bs))
		for bi, b := range bs {
			cands := map[string]bool{}
			forEachSelect(body, func(arr, idx string) {
				if !strings.Contains(idx, b.name) {
					return
				}
				for g := range ground[b.sort+"/"+vc.keyKind(arr)] {
					switch {
					case idx == b.name:
						cands[g] = true
					default:
						p := sexpList(idx)
						if len(p) == 3 && (p[0] == "bvadd" || p[0] == "+") {
							sub := "bvsub"
							if p[0] == "+" {
								sub = "-"
							}
							if p[2] == b.name && !strings.Contains(p[1], b.name) {
								cands[cancelSub(sub, p[0], g, p[1])] = true
							} else if p[1] == b.name && !strings.Contains(p[2], b.name) {
								cands[cancelSub(sub, p[0], g, p[2])] = true
							}
						}
					}
				}
			})
			if len(bs) > 1 {
				for _, sk := range sks {
					if sk.sort == b.sort {
						cands[sk.name] = true
					}
				}
			}
			for c := range cands {
				// a candidate built from an offset that mentions another bound variable of this
				// quantifier would leave that variable free after substitution
				for _, ob := range bs {
					if strings.Contains(c, ob.name) {
						delete(cands, c)
						break
					}
				}
			}
			ks := sortedKeys(cands)
			// most relevant first: terms over the goal's skolem constants, then shorter terms
			sort.SliceStable(ks, func(a, b int) bool {
				sa, sb := strings.Contains(ks[a], "sk!"), strings.Contains(ks[b], "sk!")
				if sa != sb {
					return sa
				}
				return len(ks[a]) < len(ks[b])
			})
			lim := 24
			if len(bs) == 2 {
				lim = 14
			} else if len(bs) == 3 {
				lim = 4
			}
			if len(ks) > lim {
				ks = ks[:lim]
			}
			candsPer[bi] = ks
		}
		insts := []string{body}
		for bi, b := range bs {
			var next []string
			for _, in := range insts {
				for _, c := range candsPer[bi] {
					next = append(next, substVar(in, b.name, c))
				}
			}
			insts = next
			if len(insts) == 0 {
				return
			}
		}
		for _, inst := range insts {
			if guard != "" {
				inst = "(=> " + guard + " " + inst + ")"
			}
			out = append(out, inst)
		}
	}
	pass := func() {
		// the goal's own quantified antecedents: (=> fa fa[t]) is valid, and the negated goal asserts fa
		if strings.HasPrefix(goal, "(=> ") {
			if gp := sexpList(goal); len(gp) == 3 && strings.Contains(gp[1], "(forall ") {
				var fas []string
				conjunctForalls(gp[1], &fas)
				for _, fa := range fas {
					emit(fa, fa)
				}
			}
		}
		for _, h := range hyps {
			var fas []string
			conjunctForalls(h, &fas)
			for _, fa := range fas {
				emit("", fa)
			}
		}
		for _, d := range vc.defs {
			if !needed[d.Name] || d.Body == "" || d.Sort != "Bool" || !strings.Contains(d.Body, "(forall ") {
				continue
			}
			var fas []string
			conjunctForalls(d.Body, &fas)
			for _, fa := range fas {
				emit(d.Name, fa)
			}
		}
	}
	pass()
	// further rounds: instances mention new array reads (e.g. the source positions of a copy, which in
	// turn are defined by an append); instantiate again at those, up to three more times
	for round := 0; round < 3; round++ {
		prev := out
		if len(prev) == 0 || len(prev) > 600 {
			break
		}
		nGround := 0
		for _, m := range ground {
			nGround += len(m)
		}
		for _, in := range prev {
			addGround(stripQ(in))
		}
		n2 := 0
		for _, m := range ground {
			n2 += len(m)
		}
		if n2 == nGround {
			break
		}
		out = nil
		pass()
		seen := map[string]bool{}
		var uniq []string
		for _, in := range append(prev, out...) {
			if !seen[in] {
				seen[in] = true
				uniq = append(uniq, in)
			}
		}
		if len(uniq) > 1500 {
			uniq = uniq[:1500]
		}
		out = uniq
	}
	return out
}
