package main

// Pointwise treatment of quantified goals: a goal (forall v. phi(v)) is
// skolemised by the generator, and every universally quantified hypothesis that
// occurs as a positive top-level conjunct of the path condition is instantiated
// at the skolem constants of matching sort. The original hypotheses stay in the
// query, so this only adds consequences: sound, and it turns most loop
// preservation obligations into quantifier-free queries.

import (
	"fmt"
	"strings"
)

// sexpList splits "(a b (c d) e)" into its top-level elements.
func sexpList(s string) []string {
	s = strings.TrimSpace(s)
	if len(s) < 2 || s[0] != '(' || s[len(s)-1] != ')' {
		return nil
	}
	s = s[1 : len(s)-1]
	var out []string
	d := 0
	start := -1
	for i := 0; i < len(s); i++ {
		c := s[i]
		switch {
		case c == '(':
			if d == 0 && start < 0 {
				start = i
			}
			d++
		case c == ')':
			d--
			if d == 0 {
				out = append(out, s[start:i+1])
				start = -1
			}
		case c == ' ' || c == '\n' || c == '\t':
			if d == 0 && start >= 0 {
				out = append(out, s[start:i])
				start = -1
			}
		default:
			if d == 0 && start < 0 {
				start = i
			}
		}
	}
	if start >= 0 {
		out = append(out, s[start:])
	}
	return out
}

type binder struct{ name, sort string }

// parseForall: "(forall ((a S) (b T)) body)" -> binders, body
func parseForall(t string) ([]binder, string, bool) {
	if !strings.HasPrefix(t, "(forall ") {
		return nil, "", false
	}
	parts := sexpList(t)
	if len(parts) != 3 {
		return nil, "", false
	}
	var bs []binder
	for _, b := range sexpList(parts[1]) {
		bb := sexpList(b)
		if len(bb) != 2 {
			return nil, "", false
		}
		bs = append(bs, binder{bb[0], bb[1]})
	}
	body := parts[2]
	// strip (! body :pattern ...)
	if strings.HasPrefix(body, "(! ") {
		pp := sexpList(body)
		if len(pp) >= 2 {
			body = pp[1]
		}
	}
	return bs, body, true
}

func (vc *VC) positiveForalls(term string, seen map[string]bool, out *[]string) {
	term = strings.TrimSpace(term)
	if seen[term] {
		return
	}
	seen[term] = true
	if d, ok := vc.byName[term]; ok {
		if d.Body != "" {
			vc.positiveForalls(d.Body, seen, out)
		}
		return
	}
	if strings.HasPrefix(term, "(and ") {
		for _, c := range sexpList(term)[1:] {
			vc.positiveForalls(c, seen, out)
		}
		return
	}
	if strings.HasPrefix(term, "(forall ") {
		*out = append(*out, term)
	}
}

func substVar(body, name, repl string) string {
	// bound-variable names are unique (q!name!N), plain token replacement is safe
	var b strings.Builder
	i := 0
	for i < len(body) {
		j := strings.Index(body[i:], name)
		if j < 0 {
			b.WriteString(body[i:])
			break
		}
		j += i
		end := j + len(name)
		okL := j == 0 || strings.ContainsRune(" ()", rune(body[j-1]))
		okR := end == len(body) || strings.ContainsRune(" ()", rune(body[end]))
		b.WriteString(body[i:j])
		if okL && okR {
			b.WriteString(repl)
		} else {
			b.WriteString(name)
		}
		i = end
	}
	return b.String()
}

// pointwise rewrites (hyps, goal) as described above.
func (vc *VC) pointwise(hyps []string, goal string) ([]string, string, []string) {
	var decls []string
	type sk struct{ name, sort string }
	var sks []sk
	g := goal
	for {
		bs, body, ok := parseForall(g)
		if !ok {
			break
		}
		for _, b := range bs {
			vc.n++
			n := fmt.Sprintf("sk!%d", vc.n)
			decls = append(decls, "(declare-const "+n+" "+b.sort+")")
			sks = append(sks, sk{n, b.sort})
			body = substVar(body, b.name, n)
		}
		g = body
		// descend through implication consequents: (=> a (forall ...)) stays as is
	}
	if len(sks) == 0 {
		return hyps, goal, nil
	}
	var fas []string
	seen := map[string]bool{}
	for _, h := range hyps {
		vc.positiveForalls(h, seen, &fas)
	}
	extra := append([]string{}, hyps...)
	for _, fa := range fas {
		bs, body, ok := parseForall(fa)
		if !ok {
			continue
		}
		// all assignments of skolems of matching sort to the binders (bounded)
		insts := []string{body}
		for _, b := range bs {
			var next []string
			for _, in := range insts {
				for _, s := range sks {
					if s.sort == b.sort {
						next = append(next, substVar(in, b.name, s.name))
					}
				}
			}
			insts = next
			if len(insts) > 32 {
				insts = insts[:32]
			}
		}
		extra = append(extra, insts...)
	}
	return extra, g, decls
}
