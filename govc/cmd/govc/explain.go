package main

// Message faithfulness of score explanations (C17): for every call
//   search.NewExplanation(value, "<name>, computed as <formula> from:", children...)
// in a function under contract, the formula is parsed FROM THE STRING LITERAL IN
// THE SOURCE, its variables are bound to the values of the children whose own
// message literal starts with that variable name, and the obligation
//   value == formula(children)
// is generated. Nothing about the formula is hand-written in the contracts.

import (
	"go/constant"
	"go/types"
	"regexp"
	"strings"

	"golang.org/x/tools/go/ssa"
)

var computedAsRe = regexp.MustCompile(`computed as (.+?)(?: from:)?$`)

func constString(v ssa.Value) (string, bool) {
	c, ok := v.(*ssa.Const)
	if !ok || c.Value == nil || c.Value.Kind() != constant.String {
		return "", false
	}
	return constant.StringVal(c.Value), true
}

// varargsElems returns the SSA values stored into a varargs array literal.
func varargsElems(v ssa.Value) ([]ssa.Value, bool) {
	sl, ok := v.(*ssa.Slice)
	if !ok {
		return nil, false
	}
	al, ok := sl.X.(*ssa.Alloc)
	if !ok {
		return nil, false
	}
	at, ok := al.Type().(*types.Pointer).Elem().Underlying().(*types.Array)
	if !ok {
		return nil, false
	}
	out := make([]ssa.Value, at.Len())
	for _, r := range *al.Referrers() {
		ia, ok := r.(*ssa.IndexAddr)
		if !ok {
			continue
		}
		c, ok := ia.Index.(*ssa.Const)
		if !ok {
			return nil, false
		}
		k := int(c.Int64())
		for _, r2 := range *ia.Referrers() {
			if s, ok := r2.(*ssa.Store); ok && k < len(out) {
				out[k] = s.Val
			}
		}
	}
	for _, o := range out {
		if o == nil {
			return nil, false
		}
	}
	return out, true
}

func (x *Exec) checkExplanationMessage(fr *Frame, st *State, call ssa.Instruction, c *ssa.CallCommon) {
	if len(c.Args) < 3 {
		return
	}
	msg, ok := constString(c.Args[1])
	if !ok {
		return
	}
	m := computedAsRe.FindStringSubmatch(msg)
	if m == nil {
		return
	}
	formula := strings.TrimSpace(m[1])
	kids, ok := varargsElems(c.Args[2])
	if !ok {
		x.assume1("explanation message not checked (children not a literal list): " + msg)
		return
	}
	names := map[string]Val{}
	for _, k := range kids {
		kc, ok := k.(*ssa.Call)
		if !ok || kc.Common().StaticCallee() == nil || kc.Common().StaticCallee().Name() != "NewExplanation" {
			x.assume1("explanation message not checked (a child is not constructed in place): " + msg)
			return
		}
		km, ok := constString(kc.Common().Args[1])
		if !ok {
			x.assume1("explanation message not checked (child message not a literal): " + msg)
			return
		}
		nm := strings.FieldsFunc(km, func(r rune) bool { return r == ',' || r == ' ' || r == ':' })[0]
		v := x.val(fr, kc.Common().Args[0])
		names[nm] = scalar(v.S[0], v.One())
	}
	e, err := ParseExpr(formula)
	if err != nil {
		x.bindingFailure("explanation formula does not parse: " + formula)
		return
	}
	ctx := &EvalCtx{x: x, names: names, st: st}
	ctx.names["$logIsLn"] = boolVal("true")
	fv, err := ctx.eval(renameLog(e), x.floatSort())
	if err != nil {
		x.bindingFailure("explanation formula " + formula + ": " + err.Error())
		return
	}
	val := x.val(fr, c.Args[0])
	x.obligeIn(st, "message-formula", formula, eq(val.One(), fv.One()), "value of the node equals the formula in its message literal applied to its children")
}

// renameLog maps log(...) in a message formula to the spec function ln.
func renameLog(e Expr) Expr {
	switch n := e.(type) {
	case ECall:
		args := make([]Expr, len(n.Args))
		for i, a := range n.Args {
			args[i] = renameLog(a)
		}
		fn := n.Fn
		if fn == "log" {
			fn = "ln"
		}
		return ECall{fn, args}
	case EBin:
		return EBin{n.Op, renameLog(n.X), renameLog(n.Y)}
	case EUnary:
		return EUnary{n.Op, renameLog(n.X)}
	}
	return e
}
