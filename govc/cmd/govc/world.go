package main

import (
	"bytes"
	"crypto/sha256"
	"fmt"
	"go/ast"
	"go/printer"
	"go/token"
	"go/types"
	"os"
	"path/filepath"
	"regexp"
	"sort"
	"strings"
	"sync"

	"golang.org/x/tools/go/ast/astutil"
	"golang.org/x/tools/go/packages"
	"golang.org/x/tools/go/ssa"
	"golang.org/x/tools/go/ssa/ssautil"
)

type World struct {
	prog      *ssa.Program
	pkgs      map[string]*packages.Package
	spkgs     map[string]*ssa.Package
	specs     *Specs
	fset      *token.FileSet
	modPath   string
	repo      string
	maxInline int
	files     map[string]*ast.File // by filename
	loadErrs  []string
	globLen   map[*ssa.Global]int64 // package-level slices/arrays initialised once: their length
	globOnce  sync.Once
}

const modulePath = "github.com/blugelabs/bluge"

func repoDir() string {
	if d := os.Getenv("VERIF_REPO"); d != "" {
		return d
	}
	return "/repo"
}

func verifDir() string {
	if d := os.Getenv("VERIF_DIR"); d != "" {
		return d
	}
	return "/verif"
}

// LoadSpecs reads the ext contracts and every verif_contracts.go under repo.
func LoadSpecs(repo string) (*Specs, error) {
	sp := NewSpecs()
	if err := sp.LoadExtDir(filepath.Join(verifDir(), "contracts", "ext")); err != nil {
		return nil, err
	}
	var files []string
	filepath.Walk(repo, func(p string, info os.FileInfo, err error) error {
		if err != nil {
			return nil
		}
		if info.IsDir() && (info.Name() == ".git" || info.Name() == "vendor") {
			return filepath.SkipDir
		}
		if !info.IsDir() && info.Name() == "verif_contracts.go" {
			files = append(files, p)
		}
		return nil
	})
	sort.Strings(files)
	for _, f := range files {
		rel, _ := filepath.Rel(repo, filepath.Dir(f))
		pkgPath := modulePath
		if rel != "." {
			pkgPath += "/" + filepath.ToSlash(rel)
		}
		if err := sp.LoadGoContractFile(f, pkgPath); err != nil {
			return nil, err
		}
	}
	return sp, nil
}

func LoadWorld(specs *Specs, patterns []string) (*World, error) {
	repo := repoDir()
	cfg := &packages.Config{Mode: packages.LoadAllSyntax, Dir: repo, BuildFlags: []string{"-tags=verif"},
		Env: append(os.Environ(), "GOFLAGS=-mod=mod", "GOPROXY=off", "GOSUMDB=off", "GOTOOLCHAIN=local")}
	pkgs, err := packages.Load(cfg, patterns...)
	if err != nil {
		return nil, err
	}
	w := &World{pkgs: map[string]*packages.Package{}, spkgs: map[string]*ssa.Package{}, specs: specs, modPath: modulePath, repo: repo, maxInline: 3, files: map[string]*ast.File{}}
	for _, p := range pkgs {
		for _, e := range p.Errors {
			w.loadErrs = append(w.loadErrs, e.Error())
		}
	}
	if len(w.loadErrs) > 0 {
		return w, fmt.Errorf("package load errors: %s", strings.Join(w.loadErrs, "; "))
	}
	prog, spkgs := ssautil.AllPackages(pkgs, ssa.NaiveForm|ssa.InstantiateGenerics)
	prog.Build()
	w.prog = prog
	if len(pkgs) > 0 {
		w.fset = pkgs[0].Fset
	}
	packages.Visit(pkgs, nil, func(p *packages.Package) {
		w.pkgs[p.PkgPath] = p
		for _, f := range p.Syntax {
			w.files[p.Fset.Position(f.Pos()).Filename] = f
		}
	})
	for _, sp := range spkgs {
		if sp != nil {
			w.spkgs[sp.Pkg.Path()] = sp
		}
	}
	for _, sp := range prog.AllPackages() {
		w.spkgs[sp.Pkg.Path()] = sp
	}
	return w, nil
}

// FindFunc resolves a contract key "pkgpath.[Recv.]Name" to its SSA function.
func (w *World) FindFunc(key string) *ssa.Function {
	// split package path from the rest: the package path is the longest loaded prefix
	var pkg *ssa.Package
	rest := ""
	for p, sp := range w.spkgs {
		if strings.HasPrefix(key, p+".") && (pkg == nil || len(p) > len(pkg.Pkg.Path())) {
			pkg = sp
			rest = key[len(p)+1:]
		}
	}
	if pkg == nil {
		return nil
	}
	parts := strings.Split(rest, ".")
	anon := ""
	last := parts[len(parts)-1]
	if i := strings.Index(last, "$"); i >= 0 {
		anon = last[i:]
		parts[len(parts)-1] = last[:i]
	}
	var f *ssa.Function
	switch len(parts) {
	case 1:
		f = pkg.Func(parts[0])
	case 2:
		t := pkg.Type(parts[0])
		if t == nil {
			return nil
		}
		f = w.prog.LookupMethod(types.NewPointer(t.Type()), pkg.Pkg, parts[1])
		if f == nil {
			f = w.prog.LookupMethod(t.Type(), pkg.Pkg, parts[1])
		}
		// a pointer-receiver wrapper of a value method: use the value method
		if f != nil && f.Synthetic != "" {
			if g := w.prog.LookupMethod(t.Type(), pkg.Pkg, parts[1]); g != nil && g.Synthetic == "" {
				f = g
			}
		}
	}
	if f == nil {
		return nil
	}
	if anon != "" {
		for _, a := range f.AnonFuncs {
			if strings.HasSuffix(a.Name(), anon) {
				return a
			}
		}
		return nil
	}
	return f
}

func (w *World) lookupType(spec *FuncSpec, name string) types.Type {
	// package of the contract
	best := ""
	for p := range w.pkgs {
		if strings.HasPrefix(spec.Key, p+".") && len(p) > len(best) {
			best = p
		}
	}
	if strings.Contains(name, "/") {
		i := strings.LastIndex(name, ".")
		if p, ok := w.pkgs[name[:i]]; ok {
			if o := p.Types.Scope().Lookup(name[i+1:]); o != nil {
				return o.Type()
			}
		}
		return nil
	}
	if p, ok := w.pkgs[best]; ok {
		if o := p.Types.Scope().Lookup(name); o != nil {
			return o.Type()
		}
	}
	if p, ok := w.pkgs[spec.HomePkg]; ok && spec.HomePkg != "" {
		if o := p.Types.Scope().Lookup(name); o != nil {
			return o.Type()
		}
	}
	return nil
}

// exprTextAt returns the source text of the smallest interesting expression at
// the instruction's position (used in obligation names: no line numbers).
func (w *World) exprTextAt(in ssa.Instruction) string {
	pos := in.Pos()
	if pos == token.NoPos || w.fset == nil {
		return in.String()
	}
	fn := w.fset.Position(pos).Filename
	f, ok := w.files[fn]
	if !ok {
		return in.String()
	}
	path, _ := astutil.PathEnclosingInterval(f, pos, pos)
	for _, n := range path {
		switch n.(type) {
		case *ast.IndexExpr, *ast.SliceExpr, *ast.CallExpr, *ast.SelectorExpr, *ast.StarExpr, *ast.BinaryExpr, *ast.UnaryExpr,
			*ast.TypeAssertExpr, *ast.AssignStmt, *ast.IncDecStmt, *ast.CompositeLit, *ast.SendStmt, *ast.ReturnStmt:
			var b bytes.Buffer
			printer.Fprint(&b, w.fset, n)
			s := strings.Join(strings.Fields(b.String()), " ")
			if len(s) > 70 {
				s = s[:70] + "…"
			}
			return s
		}
	}
	return in.String()
}

func (w *World) funcSourceHash(f *ssa.Function) string {
	syn := f.Syntax()
	if syn == nil || w.fset == nil {
		return ""
	}
	p0, p1 := w.fset.Position(syn.Pos()), w.fset.Position(syn.End())
	b, err := os.ReadFile(p0.Filename)
	if err != nil || p1.Offset > len(b) {
		return ""
	}
	h := sha256.Sum256(b[p0.Offset:p1.Offset])
	return fmt.Sprintf("%x", h[:8])
}

// sweepSpecs: implicit safety-only contracts for every function of a package.
func sweepSpecs(w *World, sw *Sweep, specs *Specs) []*FuncSpec {
	pkg, ok := w.spkgs[sw.Pkg]
	if !ok {
		return nil
	}
	var excl, incl *regexp.Regexp
	if sw.Exclude != "" {
		excl = regexp.MustCompile(sw.Exclude)
	}
	if sw.Include != "" {
		incl = regexp.MustCompile(sw.Include)
	}
	var fns []*ssa.Function
	for _, m := range pkg.Members {
		switch v := m.(type) {
		case *ssa.Function:
			fns = append(fns, v)
		case *ssa.Type:
			for _, t := range []types.Type{v.Type(), types.NewPointer(v.Type())} {
				ms := w.prog.MethodSets.MethodSet(t)
				for i := 0; i < ms.Len(); i++ {
					if f := w.prog.MethodValue(ms.At(i)); f != nil {
						fns = append(fns, f)
					}
				}
			}
		}
	}
	seen := map[string]bool{}
	var out []*FuncSpec
	for _, f := range fns {
		if f.Synthetic != "" || len(f.Blocks) == 0 || strings.HasPrefix(f.Name(), "init") || f.Pkg != pkg {
			continue
		}
		if pos := w.fset.Position(f.Pos()); strings.HasSuffix(pos.Filename, "_test.go") {
			continue
		}
		key := funcKey(f)
		if seen[key] {
			continue
		}
		seen[key] = true
		if excl != nil && excl.MatchString(key) {
			continue
		}
		if incl != nil && !incl.MatchString(key) {
			continue
		}
		var under []string
		if sp, ok := specs.Funcs[key]; ok {
			if (hasProp(sp.Props, sw.Props[0]) && !sw.Immutable) || (sp.Trusted && !sw.Lockset && !sw.Immutable) {
				continue // explicit contract wins (a trusted body is still swept for the lock and immutability disciplines)
			}
			if sp.ImmutChk && sw.Immutable {
				continue
			}
			under = sp.UnderConstruction
		}
		out = append(out, &FuncSpec{UnderConstruction: under, Key: key, Loops: map[int]*LoopSpec{}, Props: sw.Props, NoPanic: sw.NoPanic, InferAll: sw.Infer, File: sw.File, Implicit: true, NoNil: sw.NoNil, Lockset: sw.Lockset, ImmutChk: sw.Immutable})
	}
	sort.Slice(out, func(i, j int) bool { return out[i].Key < out[j].Key })
	return out
}

// constLenGlobals: package-level slice variables of the module that are assigned exactly once,
// in the package initialiser, from an array literal of known length (lookup tables). Their
// length is a constant of the program.
func (w *World) constLenGlobals() map[*ssa.Global]int64 {
	w.globOnce.Do(func() {
		w.globLen = map[*ssa.Global]int64{}
		stores := map[*ssa.Global]int{}
		cand := map[*ssa.Global]int64{}
		for _, sp := range w.spkgs {
			if !inMod(sp.Pkg.Path(), modulePath) {
				continue
			}
			fns := allFuncs(w, sp)
			if ini := sp.Func("init"); ini != nil {
				fns = append(fns, ini)
				fns = append(fns, ini.AnonFuncs...)
			}
			seenFn := map[*ssa.Function]bool{}
			for _, fn := range fns {
				if seenFn[fn] {
					continue
				}
				seenFn[fn] = true
				for _, b := range fn.Blocks {
					for _, in := range b.Instrs {
						st, ok := in.(*ssa.Store)
						if !ok {
							continue
						}
						g, ok := st.Addr.(*ssa.Global)
						if !ok {
							continue
						}
						stores[g]++
						if fn.Name() != "init" {
							stores[g] += 100
							continue
						}
						if sl, ok := st.Val.(*ssa.Slice); ok && sl.Low == nil && sl.High == nil {
							if al, ok := sl.X.(*ssa.Alloc); ok {
								if at, ok := al.Type().(*types.Pointer).Elem().Underlying().(*types.Array); ok {
									cand[g] = at.Len()
								}
							}
						}
					}
				}
			}
		}
		for g, n := range cand {
			if stores[g] == 1 {
				w.globLen[g] = n
			}
		}
		if os.Getenv("GOVC_DEBUG_GLOBALS") != "" {
			fmt.Fprintf(os.Stderr, "constLenGlobals: %d candidates, %d accepted\n", len(cand), len(w.globLen))
		}
	})
	return w.globLen
}
