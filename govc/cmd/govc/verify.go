package main

import (
	"fmt"
	"go/types"
	"sort"
	"strings"

	"golang.org/x/tools/go/ssa"
)

type FuncResult struct {
	Key       string
	Fn        string
	Hash      string
	Mode      string
	Obls      []*Obligation
	Unsup     []string
	Assumes   []string
	Trusted   []string
	Inlined   []string
	Err       string
	Inferred  []string
	InferQueries int
	InstrKinds []string
}

// VerifyFunc generates the obligations of one function under contract.
func VerifyFunc(w *World, spec *FuncSpec, prop string, safetyAll bool) (res *FuncResult) {
	res = &FuncResult{Key: spec.Key}
	fn := w.FindFunc(spec.Key)
	mode := Mode{BV: spec.BV, FP: spec.FP}
	x := NewExec(w, mode)
	x.rootSpec = spec
	x.propFilter = prop
	x.safety = spec.NoPanic || safetyAll
	x.lockset = spec.Lockset
	if fn == nil {
		x.rootFn = nil
		res.Fn = spec.Key
		o := &Obligation{Name: spec.Key + "#binding:function exists", Fn: spec.Key, Kind: "binding", Hyps: []string{"true"}, Goal: "false", VC: x.vc, Props: spec.Props, Note: "contract names a function that does not exist"}
		res.Obls = []*Obligation{o}
		return res
	}
	defer func() {
		if r := recover(); r != nil {
			res.Err = fmt.Sprint(r)
			o := &Obligation{Name: shortFn(fn) + "#engine:generation failed", Fn: shortFn(fn), Kind: "engine", Hyps: []string{"true"}, Goal: "false", VC: NewVC(mode), Props: spec.Props, Note: "VC generation failed: " + fmt.Sprint(r)}
			res.Obls = append(res.Obls, o)
		}
	}()
	x.rootFn = fn
	res.Fn = shortFn(fn)
	res.Hash = w.funcSourceHash(fn)
	res.Mode = modeString(mode)
	st := &State{pc: "true", cells: map[int]Val{}, heap: map[string]string{}}
	st.now = x.vc.Declare("now0", sortInt)
	x.entryNow = st.now
	fr := &Frame{fn: fn, env: map[ssa.Value]Val{}, addrs: map[ssa.Value]Addr{}, spec: spec, params: map[string]Val{}, root: true, freeVar: map[*ssa.FreeVar]Addr{}}
	var facts []string
	for _, p := range fn.Params {
		v, f := x.freshVal("in."+p.Name(), p.Type())
		fr.env[p] = v
		fr.params[p.Name()] = v
		facts = append(facts, f, x.refFacts(st, v))
		x.inputs = append(x.inputs, inputVar{p.Name(), p.Type(), v})
	}
	if fn.Signature.Recv() != nil && len(fn.Params) > 0 {
		if _, isPtr := fn.Params[0].Type().Underlying().(*types.Pointer); isPtr {
			facts = append(facts, not(eq(fr.env[fn.Params[0]].One(), "0")))
			x.assume1("method receivers are non-nil")
		}
	}
	for _, g := range spec.GhostParams {
		gs, err := x.specSort(g.Type)
		if err != nil {
			panic(err)
		}
		n := x.vc.Declare("ghost."+g.Name, gs)
		fr.params[g.Name] = scalar(gs, n)
		facts = append(facts, rangeFact(gs, n))
	}
	for _, fv := range fn.FreeVars {
		// closure verified on its own: captured variables are arbitrary pointers
		v, f := x.freshVal("fv."+fv.Name(), fv.Type())
		facts = append(facts, f)
		if pt, ok := fv.Type().Underlying().(*types.Pointer); ok {
			fr.freeVar[fv] = x.pointerAddr(v.One(), pt.Elem())
		}
	}
	x.assumeIn(st, and(facts...))
	x.cur = fr
	x.curState = st
	fr.entry = st.clone()
	// requires
	ctx := &EvalCtx{x: x, names: fr.params, st: st, old: st, oldNames: fr.params}
	for _, r := range spec.Requires {
		if !x.clauseActive(r) {
			continue
		}
		v, err := ctx.eval(r.E, sortBool)
		if err != nil || len(v.L) != 1 || v.S[0].K != SBool {
			x.bindingFailure(fmt.Sprintf("requires %q: %v", r.Src, err))
			continue
		}
		x.assumeIn(st, v.One())
	}
	if x.lockset {
		mentions := false
		for _, r := range spec.Requires {
			if strings.Contains(r.Src, "held") {
				mentions = true
			}
		}
		if !mentions {
			// functions are entered without holding any lock unless their contract says otherwise
			for _, wr := range []bool{true, false} {
				h, hs := x.heldArr(st, wr)
				x.assumeIn(st, eq(h, "((as const "+hs.SMT()+") false)"))
			}
			x.assume1("functions without a lock precondition are entered with no lock held (callers are checked for balanced locking)")
		}
	}
	fr.entry = st.clone()
	// vacuity guard: the entry hypotheses must be satisfiable
	x.obls = append(x.obls, &Obligation{Name: res.Fn + "#vacuity:requires satisfiable", Fn: res.Fn, Kind: "vacuity", Hyps: []string{st.pc}, Goal: "", VC: x.vc, Props: spec.Props})
	x.runBody(fr, st)
	if len(x.returnPCs) > 0 && !spec.Implicit {
		// vacuity guard: with everything assumed along the way (callee contracts, effects, at-call
		// assumptions, loop invariants) at least one return must remain reachable
		x.obls = append(x.obls, &Obligation{Name: res.Fn + "#vacuity:some return reachable", Fn: res.Fn, Kind: "vacuity", Hyps: []string{or(x.returnPCs...)}, Goal: "", VC: x.vc, Props: spec.Props})
	}
	for _, e := range spec.Exits {
		if x.clauseActive(e) && x.exitHits[e.Name()] == 0 {
			x.curState = fr.entry
			x.bindingFailure(fmt.Sprintf("exit clause %q applies at no return of %s", e.Name(), res.Fn))
		}
	}
	for _, ac := range spec.AtCalls {
		if ac.Assert != nil && x.atCallSkipped[ac.Assert.Name()] && x.exitHits["at-call:"+ac.Assert.Name()] == 0 {
			x.curState = fr.entry
			x.bindingFailure(fmt.Sprintf("at-call clause %q applies at no call of %s", ac.Assert.Name(), res.Fn))
		}
	}
	if spec.Implicit && spec.ImmutChk && !spec.NoPanic && !spec.Lockset {
		var keep []*Obligation
		for _, o := range x.obls {
			if o.Kind == "immutable" || o.Kind == "binding" || o.Kind == "engine" || strings.HasPrefix(o.Kind, "pre roaring.") || (strings.HasPrefix(o.Kind, "pre ") && strings.Contains(o.Name, "created here")) {
				keep = append(keep, o)
			}
		}
		x.obls = keep
	}
	if spec.Implicit && spec.Lockset && !spec.NoPanic {
		// a lock-set sweep keeps only the lock-discipline obligations
		var keep []*Obligation
		for _, o := range x.obls {
			switch {
			case strings.HasPrefix(o.Kind, "guarded_by"), o.Kind == "lockset", strings.HasPrefix(o.Kind, "pre sync."), o.Kind == "binding", o.Kind == "engine",
				strings.Contains(o.Name, "lock set unchanged"):
				keep = append(keep, o)
			}
		}
		x.obls = keep
	}
	res.Obls = x.obls
	res.Unsup = x.unsup
	res.Inferred = x.inferredNames
	res.InferQueries = x.inferQueries
	for a := range x.assumes {
		res.Assumes = append(res.Assumes, a)
	}
	sort.Strings(res.Assumes)
	for t := range x.trusted {
		res.Trusted = append(res.Trusted, t)
	}
	sort.Strings(res.Trusted)
	for t := range x.inlined {
		res.Inlined = append(res.Inlined, t)
	}
	sort.Strings(res.Inlined)
	kinds := map[string]bool{}
	for _, b := range fn.Blocks {
		for _, in := range b.Instrs {
			kinds[strings.TrimPrefix(fmt.Sprintf("%T", in), "*ssa.")] = true
		}
	}
	for k := range kinds {
		res.InstrKinds = append(res.InstrKinds, k)
	}
	sort.Strings(res.InstrKinds)
	return res
}

func modeString(m Mode) string {
	s := "int"
	if m.BV {
		s = "bv"
	}
	if m.FP {
		s += "+fp"
	} else {
		s += "+real"
	}
	return s
}

// VerifyLemma: a closed formula over spec functions, proved once.
func VerifyLemma(w *World, lm *Lemma) *FuncResult {
	mode := Mode{BV: lm.BV, FP: lm.FP}
	x := NewExec(w, mode)
	res := &FuncResult{Key: "lemma " + lm.Name, Fn: "lemma " + lm.Name, Mode: modeString(mode)}
	defer func() {
		if r := recover(); r != nil {
			res.Err = fmt.Sprint(r)
			res.Obls = append(res.Obls, &Obligation{Name: "lemma " + lm.Name + "#engine:generation failed", Fn: res.Fn, Kind: "engine", Hyps: []string{"true"}, Goal: "false", VC: NewVC(mode), Props: lm.Props, Note: fmt.Sprint(r)})
		}
	}()
	st := &State{pc: "true", cells: map[int]Val{}, heap: map[string]string{}, now: "0"}
	ctx := &EvalCtx{x: x, names: map[string]Val{}, st: st}
	var hyps []string
	for _, u := range lm.Uses {
		found := false
		for _, ax := range w.specs.Axioms {
			if ax.Name == u {
				v, err := ctx.eval(ax.E, sortBool)
				if err == nil {
					hyps = append(hyps, v.One())
					x.trusted["axiom "+ax.Name] = true
					found = true
				}
			}
		}
		for _, l2 := range w.specs.Lemmas {
			if l2.Name == u {
				v, err := ctx.eval(l2.E, sortBool)
				if err == nil {
					hyps = append(hyps, v.One())
					found = true
				}
			}
		}
		if !found {
			res.Obls = append(res.Obls, &Obligation{Name: "lemma " + lm.Name + "#binding:uses " + u, Fn: res.Fn, Kind: "binding", Hyps: []string{"true"}, Goal: "false", VC: x.vc, Props: lm.Props})
		}
	}
	// top-level forall is skolemised (negated goal becomes existential): strip it
	body := lm.E
	cc := ctx
	var ranges []string
	for {
		q, ok := body.(EQuant)
		if !ok || !q.Forall {
			break
		}
		cc = cc.clone()
		for _, qv := range q.Vars {
			s, err := x.specSort(qv.Type)
			if err != nil {
				panic(err)
			}
			n := x.vc.Declare("sk."+qv.Name, s)
			cc.names[qv.Name] = scalar(s, n)
			ranges = append(ranges, rangeFact(s, n))
		}
		body = q.Body
	}
	v, err := cc.eval(body, sortBool)
	if err != nil {
		res.Obls = append(res.Obls, &Obligation{Name: "lemma " + lm.Name + "#binding:" + err.Error(), Fn: res.Fn, Kind: "binding", Hyps: []string{"true"}, Goal: "false", VC: x.vc, Props: lm.Props})
		return res
	}
	hyps = append(hyps, ranges...)
	if len(hyps) == 0 {
		hyps = []string{"true"}
	}
	res.Obls = append(res.Obls, &Obligation{Name: "lemma " + lm.Name, Fn: res.Fn, Kind: "lemma", Hyps: hyps, Goal: v.One(), VC: x.vc, Props: lm.Props, Note: lm.Src})
	for t := range x.trusted {
		res.Trusted = append(res.Trusted, t)
	}
	return res
}
