package main

// Static typestate obligations, decided on the SSA control-flow graph instead of
// by an SMT solver (back end "cfg"):
//   borrow SRC until REL   memory obtained from a call to SRC (e.g. a slice of an mmap)
//                          must not be used on any path after a call to REL (unmap)

import (
	"fmt"
	"go/token"
	"go/types"
	"strings"

	"golang.org/x/tools/go/ssa"
)

func calleeKeyOf(c *ssa.CallCommon) string {
	if c.IsInvoke() {
		return methodKey(c.Method)
	}
	if f := c.StaticCallee(); f != nil {
		return funcKey(f)
	}
	return ""
}

func staticChecks(w *World, id string) []*FuncResult {
	var out []*FuncResult
	for _, k := range sortedKeys(w.specs.Funcs) {
		sp := w.specs.Funcs[k]
		if sp.Ext || !hasProp(sp.Props, id) || len(sp.Borrows) == 0 {
			continue
		}
		fn := w.FindFunc(sp.Key)
		if fn == nil {
			continue
		}
		res := &FuncResult{Key: sp.Key + " (borrow check)", Fn: shortFn(fn), Hash: w.funcSourceHash(fn), Mode: "cfg"}
		for _, b := range sp.Borrows {
			res.Obls = append(res.Obls, borrowCheck(w, fn, sp, b[0], b[1])...)
		}
		out = append(out, res)
	}
	return out
}

func borrowCheck(w *World, fn *ssa.Function, sp *FuncSpec, src, rel string) []*Obligation {
	vc := NewVC(Mode{})
	mk := func(what string, ok bool, detail string) *Obligation {
		o := &Obligation{Name: fmt.Sprintf("%s#borrow:%s", shortFn(fn), what), Fn: shortFn(fn), Kind: "static", VC: vc, Props: sp.Props, Solver: "cfg"}
		if ok {
			o.Status = "discharged"
		} else {
			o.Status = "refuted"
			o.Model = detail
		}
		return o
	}
	tainted := map[ssa.Value]bool{}
	taintedAlloc := map[*ssa.Alloc]bool{}
	var sources, releases []ssa.Instruction
	for _, b := range fn.Blocks {
		for _, in := range b.Instrs {
			var c *ssa.CallCommon
			switch i := in.(type) {
			case *ssa.Call:
				c = i.Common()
			case *ssa.Defer:
				c = i.Common()
			}
			if c == nil {
				continue
			}
			k := calleeKeyOf(c)
			if k != "" && strings.HasSuffix(k, src) {
				sources = append(sources, in)
				if v, ok := in.(ssa.Value); ok {
					tainted[v] = true
				}
			}
			if k != "" && strings.HasSuffix(k, rel) {
				releases = append(releases, in)
			}
		}
	}
	if len(sources) == 0 || len(releases) == 0 {
		return []*Obligation{mk(fmt.Sprintf("calls to %s and %s exist", src, rel), false, "the borrow clause does not bind: no call to the source or to the release function")}
	}
	// propagate taint to a fixpoint
	for changed := true; changed; {
		changed = false
		for _, b := range fn.Blocks {
			for _, in := range b.Instrs {
				switch i := in.(type) {
				case *ssa.Extract:
					if tainted[i.Tuple] && isBorrowable(i.Type()) && !tainted[i] {
						tainted[i], changed = true, true
					}
				case *ssa.Slice:
					if tainted[i.X] && !tainted[i] {
						tainted[i], changed = true, true
					}
				case *ssa.ChangeType:
					if tainted[i.X] && !tainted[i] {
						tainted[i], changed = true, true
					}
				case *ssa.MakeInterface:
					if tainted[i.X] && !tainted[i] {
						tainted[i], changed = true, true
					}
				case *ssa.Phi:
					for _, e := range i.Edges {
						if tainted[e] && !tainted[i] {
							tainted[i], changed = true, true
						}
					}
				case *ssa.Store:
					if tainted[i.Val] {
						if a, ok := i.Addr.(*ssa.Alloc); ok && !taintedAlloc[a] {
							taintedAlloc[a], changed = true, true
						}
						if ia, ok := i.Addr.(*ssa.IndexAddr); ok {
							if a, ok := ia.X.(*ssa.Alloc); ok && !taintedAlloc[a] {
								taintedAlloc[a], changed = true, true // varargs array
							}
						}
					}
				case *ssa.UnOp:
					if i.Op == token.MUL {
						if a, ok := i.X.(*ssa.Alloc); ok && taintedAlloc[a] && !tainted[i] {
							tainted[i], changed = true, true
						}
					}
				}
				// a slice of a tainted varargs array
				if sl, ok := in.(*ssa.Slice); ok {
					if a, ok := sl.X.(*ssa.Alloc); ok && taintedAlloc[a] && !tainted[sl] {
						tainted[sl], changed = true, true
					}
				}
			}
		}
	}
	// reachability from each release
	reach := func(from ssa.Instruction) map[ssa.Instruction]bool {
		r := map[ssa.Instruction]bool{}
		fb := from.Block()
		after := false
		for _, in := range fb.Instrs {
			if after {
				r[in] = true
			}
			if in == from {
				after = true
			}
		}
		seen := map[*ssa.BasicBlock]bool{}
		var stack []*ssa.BasicBlock
		stack = append(stack, fb.Succs...)
		for len(stack) > 0 {
			b := stack[len(stack)-1]
			stack = stack[:len(stack)-1]
			if seen[b] {
				continue
			}
			seen[b] = true
			for _, in := range b.Instrs {
				r[in] = true
			}
			stack = append(stack, b.Succs...)
		}
		return r
	}
	var obls []*Obligation
	n := 0
	for _, rl := range releases {
		after := reach(rl)
		for _, b := range fn.Blocks {
			for _, in := range b.Instrs {
				if !after[in] {
					continue
				}
				switch in.(type) {
				case *ssa.DebugRef:
					continue
				}
				if st, ok := in.(*ssa.Store); ok {
					if _, isAlloc := st.Addr.(*ssa.Alloc); isAlloc {
						continue // moving the reference is not a read of the memory
					}
				}
				used := false
				var ops []*ssa.Value
				for _, op := range in.Operands(ops) {
					if op != nil && *op != nil && tainted[*op] {
						used = true
					}
				}
				if !used {
					continue
				}
				switch in.(type) {
				case *ssa.Extract, *ssa.Slice, *ssa.ChangeType, *ssa.MakeInterface, *ssa.Phi:
					continue // propagation only; the consuming instruction is reported
				}
				n++
				obls = append(obls, mk(fmt.Sprintf("no use of %s result after %s: %s", src, rel, w.exprTextAt(in)), false,
					fmt.Sprintf("memory obtained from %s is used by `%s` on a path after `%s` released it", src, w.exprTextAt(in), w.exprTextAt(rl))))
			}
		}
	}
	if n == 0 {
		obls = append(obls, mk(fmt.Sprintf("no use of %s result after %s", src, rel), true, ""))
	}
	return obls
}

func isBorrowable(t types.Type) bool {
	switch t.Underlying().(type) {
	case *types.Slice, *types.Pointer:
		return true
	}
	return false
}
