package main

func staticChecks(w *World, id string) []*FuncResult { return nil }
