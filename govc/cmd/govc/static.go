package main

// Static typestate obligations, decided on the SSA control-flow graph instead of
// by an SMT solver (back end "cfg"):
//   borrow SRC until REL   memory obtained from a call to SRC (e.g. a slice of an mmap)
//                          must not be used on any path after a call to REL (unmap)

import (
	"fmt"
	"go/token"
	"go/types"
	"sort"
	"strings"

	"golang.org/x/tools/go/ssa"
)

func calleeKeyOf(c *ssa.CallCommon) string {
	if c.IsInvoke() {
		return methodKey(c.Method)
	}
	if f := c.StaticCallee(); f != nil {
		return funcKey(f)
	}
	return ""
}

func staticChecks(w *World, id string) []*FuncResult {
	out := atomicChecks(w, id)
	for _, k := range sortedKeys(w.specs.Funcs) {
		sp := w.specs.Funcs[k]
		if sp.Ext || !hasProp(sp.Props, id) || (len(sp.Borrows) == 0 && len(sp.NoReads) == 0) {
			continue
		}
		fn := w.FindFunc(sp.Key)
		if fn == nil {
			continue
		}
		if len(sp.NoReads) > 0 {
			out = append(out, noReadCheck(w, fn, sp))
		}
		if len(sp.Borrows) == 0 {
			continue
		}
		res := &FuncResult{Key: sp.Key + " (borrow check)", Fn: shortFn(fn), Hash: w.funcSourceHash(fn), Mode: "cfg"}
		for _, b := range sp.Borrows {
			res.Obls = append(res.Obls, borrowCheck(w, fn, sp, b[0], b[1])...)
		}
		out = append(out, res)
	}
	return out
}

// noReadCheck: `noread T.f`: no instruction of the function (its closures included) takes the address of,
// or extracts, field f of a T. A frame on reads: the result cannot depend on that field.
func noReadCheck(w *World, fn *ssa.Function, sp *FuncSpec) *FuncResult {
	res := &FuncResult{Key: sp.Key + " (read frame)", Fn: shortFn(fn), Hash: w.funcSourceHash(fn), Mode: "cfg"}
	vc := NewVC(Mode{})
	var fns []*ssa.Function
	var walk func(f *ssa.Function)
	walk = func(f *ssa.Function) {
		fns = append(fns, f)
		for _, a := range f.AnonFuncs {
			walk(a)
		}
	}
	walk(fn)
	for _, nr := range sp.NoReads {
		parts := strings.SplitN(nr, ".", 2)
		var sites []string
		fieldOf := func(t types.Type, idx int) (string, string) {
			if p, ok := t.Underlying().(*types.Pointer); ok {
				t = p.Elem()
			}
			tn := ""
			if n, ok := t.(*types.Named); ok {
				tn = n.Obj().Name()
			}
			if st, ok := t.Underlying().(*types.Struct); ok && idx < st.NumFields() {
				return tn, st.Field(idx).Name()
			}
			return tn, ""
		}
		for _, f := range fns {
			for _, b := range f.Blocks {
				for _, in := range b.Instrs {
					var tn, fld string
					switch i := in.(type) {
					case *ssa.FieldAddr:
						tn, fld = fieldOf(i.X.Type(), i.Field)
					case *ssa.Field:
						tn, fld = fieldOf(i.X.Type(), i.Field)
					}
					if tn == parts[0] && fld == parts[1] {
						sites = append(sites, w.prog.Fset.Position(in.Pos()).String())
					}
				}
			}
		}
		o := &Obligation{Name: fmt.Sprintf("%s#noread:%s is not read", shortFn(fn), nr), Fn: shortFn(fn), Kind: "static", VC: vc, Props: sp.Props, Solver: "cfg", Status: "discharged", RootKey: sp.Key}
		if len(sites) > 0 {
			o.Status = "refuted"
			o.Model = "field read at " + strings.Join(sites, ", ")
		}
		res.Obls = append(res.Obls, o)
	}
	return res
}

func borrowCheck(w *World, fn *ssa.Function, sp *FuncSpec, src, rel string) []*Obligation {
	vc := NewVC(Mode{})
	mk := func(what string, ok bool, detail string) *Obligation {
		o := &Obligation{Name: fmt.Sprintf("%s#borrow:%s", shortFn(fn), what), Fn: shortFn(fn), Kind: "static", VC: vc, Props: sp.Props, Solver: "cfg"}
		if ok {
			o.Status = "discharged"
		} else {
			o.Status = "refuted"
			o.Model = detail
		}
		return o
	}
	tainted := map[ssa.Value]bool{}
	taintedAlloc := map[*ssa.Alloc]bool{}
	var sources, releases []ssa.Instruction
	for _, b := range fn.Blocks {
		for _, in := range b.Instrs {
			var c *ssa.CallCommon
			switch i := in.(type) {
			case *ssa.Call:
				c = i.Common()
			case *ssa.Defer:
				c = i.Common()
			}
			if c == nil {
				continue
			}
			k := calleeKeyOf(c)
			if k != "" && strings.HasSuffix(k, src) {
				sources = append(sources, in)
				if v, ok := in.(ssa.Value); ok {
					tainted[v] = true
				}
			}
			if k != "" && strings.HasSuffix(k, rel) {
				releases = append(releases, in)
			}
		}
	}
	if len(sources) == 0 || len(releases) == 0 {
		return []*Obligation{mk(fmt.Sprintf("calls to %s and %s exist", src, rel), false, "the borrow clause does not bind: no call to the source or to the release function")}
	}
	// propagate taint to a fixpoint
	for changed := true; changed; {
		changed = false
		for _, b := range fn.Blocks {
			for _, in := range b.Instrs {
				switch i := in.(type) {
				case *ssa.Extract:
					if tainted[i.Tuple] && isBorrowable(i.Type()) && !tainted[i] {
						tainted[i], changed = true, true
					}
				case *ssa.Slice:
					if tainted[i.X] && !tainted[i] {
						tainted[i], changed = true, true
					}
				case *ssa.ChangeType:
					if tainted[i.X] && !tainted[i] {
						tainted[i], changed = true, true
					}
				case *ssa.MakeInterface:
					if tainted[i.X] && !tainted[i] {
						tainted[i], changed = true, true
					}
				case *ssa.Phi:
					for _, e := range i.Edges {
						if tainted[e] && !tainted[i] {
							tainted[i], changed = true, true
						}
					}
				case *ssa.Store:
					if tainted[i.Val] {
						if a, ok := i.Addr.(*ssa.Alloc); ok && !taintedAlloc[a] {
							taintedAlloc[a], changed = true, true
						}
						if ia, ok := i.Addr.(*ssa.IndexAddr); ok {
							if a, ok := ia.X.(*ssa.Alloc); ok && !taintedAlloc[a] {
								taintedAlloc[a], changed = true, true // varargs array
							}
						}
					}
				case *ssa.UnOp:
					if i.Op == token.MUL {
						if a, ok := i.X.(*ssa.Alloc); ok && taintedAlloc[a] && !tainted[i] {
							tainted[i], changed = true, true
						}
					}
				}
				// a slice of a tainted varargs array
				if sl, ok := in.(*ssa.Slice); ok {
					if a, ok := sl.X.(*ssa.Alloc); ok && taintedAlloc[a] && !tainted[sl] {
						tainted[sl], changed = true, true
					}
				}
			}
		}
	}
	// reachability from each release
	reach := func(from ssa.Instruction) map[ssa.Instruction]bool {
		r := map[ssa.Instruction]bool{}
		fb := from.Block()
		after := false
		for _, in := range fb.Instrs {
			if after {
				r[in] = true
			}
			if in == from {
				after = true
			}
		}
		seen := map[*ssa.BasicBlock]bool{}
		var stack []*ssa.BasicBlock
		stack = append(stack, fb.Succs...)
		for len(stack) > 0 {
			b := stack[len(stack)-1]
			stack = stack[:len(stack)-1]
			if seen[b] {
				continue
			}
			seen[b] = true
			for _, in := range b.Instrs {
				r[in] = true
			}
			stack = append(stack, b.Succs...)
		}
		return r
	}
	var obls []*Obligation
	n := 0
	for _, rl := range releases {
		after := reach(rl)
		for _, b := range fn.Blocks {
			for _, in := range b.Instrs {
				if !after[in] {
					continue
				}
				switch in.(type) {
				case *ssa.DebugRef:
					continue
				}
				if st, ok := in.(*ssa.Store); ok {
					if _, isAlloc := st.Addr.(*ssa.Alloc); isAlloc {
						continue // moving the reference is not a read of the memory
					}
				}
				used := false
				var ops []*ssa.Value
				for _, op := range in.Operands(ops) {
					if op != nil && *op != nil && tainted[*op] {
						used = true
					}
				}
				if !used {
					continue
				}
				switch in.(type) {
				case *ssa.Extract, *ssa.Slice, *ssa.ChangeType, *ssa.MakeInterface, *ssa.Phi:
					continue // propagation only; the consuming instruction is reported
				}
				n++
				obls = append(obls, mk(fmt.Sprintf("no use of %s result after %s: %s", src, rel, w.exprTextAt(in)), false,
					fmt.Sprintf("memory obtained from %s is used by `%s` on a path after `%s` released it", src, w.exprTextAt(in), w.exprTextAt(rl))))
			}
		}
	}
	if n == 0 {
		obls = append(obls, mk(fmt.Sprintf("no use of %s result after %s", src, rel), true, ""))
	}
	return obls
}

func isBorrowable(t types.Type) bool {
	switch t.Underlying().(type) {
	case *types.Slice, *types.Pointer:
		return true
	}
	return false
}

// ---- atomic_only: fields that may only be touched through sync/atomic ----

func atomicChecks(w *World, id string) []*FuncResult {
	var out []*FuncResult
	for _, k := range sortedKeys(w.specs.Types) {
		ts := w.specs.Types[k]
		if !hasProp(ts.Props, id) || len(ts.Atomic) == 0 {
			continue
		}
		i := strings.LastIndex(k, ".")
		pkg, ok := w.spkgs[k[:i]]
		if !ok {
			continue
		}
		tn := pkg.Type(k[i+1:])
		if tn == nil {
			continue
		}
		su, ok := tn.Type().Underlying().(*types.Struct)
		if !ok {
			continue
		}
		atomicField := map[int]bool{}
		for _, f := range ts.Atomic {
			if f == "*" {
				for j := 0; j < su.NumFields(); j++ {
					atomicField[j] = true
				}
				continue
			}
			j, _ := findField(su, f)
			if j >= 0 {
				atomicField[j] = true
			}
		}
		res := &FuncResult{Key: k + " (atomic_only)", Fn: "type " + k[strings.LastIndex(k, "/")+1:], Mode: "cfg"}
		vc := NewVC(Mode{})
		nOK := 0
		// every function of every loaded bluge package
		for _, sp := range w.spkgs {
			if !inMod(sp.Pkg.Path(), modulePath) {
				continue
			}
			for _, fn := range allFuncs(w, sp) {
				if w.fset != nil && strings.HasSuffix(w.fset.Position(fn.Pos()).Filename, "_test.go") {
					continue
				}
				for _, b := range fn.Blocks {
					for _, in := range b.Instrs {
						// whole-struct load/store of a value of this type through a pointer
						if u, ok := in.(*ssa.UnOp); ok && u.Op == token.MUL && types.Identical(u.Type(), tn.Type()) {
							if _, isAlloc := u.X.(*ssa.Alloc); !isAlloc {
								res.Obls = append(res.Obls, &Obligation{Name: fmt.Sprintf("%s#atomic_only:%s copied as a whole (non-atomic read of every field): %s", shortFn(fn), tn.Name(), w.exprTextAt(in)),
									Fn: res.Fn, Kind: "static", VC: vc, Props: ts.Props, Solver: "cfg", Status: "refuted", Model: "non-atomic access to fields that are updated with sync/atomic elsewhere"})
							}
						}
						fa, ok := in.(*ssa.FieldAddr)
						if !ok || !atomicField[fa.Field] {
							continue
						}
						pt, ok := fa.X.Type().Underlying().(*types.Pointer)
						if !ok || !types.Identical(pt.Elem(), tn.Type()) {
							continue
						}
						// a local value (copy) or the object under construction is exempt
						if _, ok := fa.X.(*ssa.Alloc); ok {
							continue
						}
						if constructsBeforeSpawn(fn, in, tn.Type()) {
							continue
						}
						good := true
						for _, r := range *fa.Referrers() {
							c, isCall := r.(ssa.CallInstruction)
							if isCall {
								if f := c.Common().StaticCallee(); f != nil && f.Pkg != nil && f.Pkg.Pkg.Path() == "sync/atomic" {
									continue
								}
							}
							if _, isDbg := r.(*ssa.DebugRef); isDbg {
								continue
							}
							good = false
						}
						if good {
							nOK++
							continue
						}
						res.Obls = append(res.Obls, &Obligation{Name: fmt.Sprintf("%s#atomic_only:%s.%s accessed without sync/atomic: %s", shortFn(fn), tn.Name(), su.Field(fa.Field).Name(), w.exprTextAt(in)),
							Fn: res.Fn, Kind: "static", VC: vc, Props: ts.Props, Solver: "cfg", Status: "refuted", Model: "plain access to an atomic_only field"})
					}
				}
			}
		}
		occ := map[string]int{}
		for _, o := range res.Obls {
			occ[o.Name]++
			if occ[o.Name] > 1 {
				o.Name = fmt.Sprintf("%s@%d", o.Name, occ[o.Name])
			}
		}
		res.Obls = append(res.Obls, &Obligation{Name: fmt.Sprintf("type %s#atomic_only:%d access sites go through sync/atomic", tn.Name(), nOK), Fn: res.Fn, Kind: "static", VC: vc, Props: ts.Props, Solver: "cfg", Status: "discharged"})
		out = append(out, res)
	}
	return out
}

func allFuncs(w *World, pkg *ssa.Package) []*ssa.Function {
	var fns []*ssa.Function
	seen := map[*ssa.Function]bool{}
	add := func(f *ssa.Function) {
		if f == nil || seen[f] || len(f.Blocks) == 0 {
			return
		}
		seen[f] = true
		fns = append(fns, f)
		for _, a := range f.AnonFuncs {
			if !seen[a] {
				seen[a] = true
				fns = append(fns, a)
			}
		}
	}
	for _, m := range pkg.Members {
		switch v := m.(type) {
		case *ssa.Function:
			add(v)
		case *ssa.Type:
			for _, t := range []types.Type{v.Type(), types.NewPointer(v.Type())} {
				ms := w.prog.MethodSets.MethodSet(t)
				for i := 0; i < ms.Len(); i++ {
					f := w.prog.MethodValue(ms.At(i))
					if f != nil && f.Synthetic == "" {
						add(f)
					}
				}
			}
		}
	}
	sort.Slice(fns, func(i, j int) bool { return fns[i].String() < fns[j].String() })
	return fns
}

// constructsBeforeSpawn: fn allocates an object of type t (composite literal) and the
// instruction cannot be reached from any go statement of fn: the object is not shared yet.
func constructsBeforeSpawn(fn *ssa.Function, in ssa.Instruction, t types.Type) bool {
	builds := false
	var gos []ssa.Instruction
	for _, b := range fn.Blocks {
		for _, i := range b.Instrs {
			if al, ok := i.(*ssa.Alloc); ok && al.Comment == "complit" && types.Identical(al.Type().(*types.Pointer).Elem(), t) {
				builds = true
			}
			if g, ok := i.(*ssa.Go); ok {
				gos = append(gos, g)
			}
		}
	}
	if !builds {
		return false
	}
	for _, g := range gos {
		// same block, later
		after := false
		for _, i := range g.Block().Instrs {
			if i == g {
				after = true
			} else if after && i == in {
				return false
			}
		}
		seen := map[*ssa.BasicBlock]bool{}
		stack := append([]*ssa.BasicBlock{}, g.Block().Succs...)
		for len(stack) > 0 {
			b := stack[len(stack)-1]
			stack = stack[:len(stack)-1]
			if seen[b] {
				continue
			}
			seen[b] = true
			if b == in.Block() {
				return false
			}
			stack = append(stack, b.Succs...)
		}
	}
	return true
}
