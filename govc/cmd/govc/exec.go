package main

import (
	"fmt"
	"go/ast"
	"go/token"
	"go/types"
	"sort"
	"strings"

	"golang.org/x/tools/go/ssa"
)

type State struct {
	pc     string
	cells  map[int]Val
	heap   map[string]string
	now    string
	defers []*ssa.Defer
	dead   bool
}

func (s *State) clone() *State {
	n := &State{pc: s.pc, now: s.now, cells: make(map[int]Val, len(s.cells)), heap: make(map[string]string, len(s.heap))}
	for k, v := range s.cells {
		n.cells[k] = v
	}
	for k, v := range s.heap {
		n.heap[k] = v
	}
	n.defers = append([]*ssa.Defer{}, s.defers...)
	return n
}

type Obligation struct {
	Name   string
	Fn     string
	Kind   string
	Hyps   []string
	Goal   string
	VC     *VC
	Props  []string
	Pos    string
	Inputs []inputVar // for replay
	Note   string
	// result
	Status  string // discharged | refuted | unknown | static-ok | static-fail
	Solver  string
	TimeS   float64
	Model   string
	SMTSize int
	Bounded bool
	InlinedFn string            // obligation arises inside this inlined callee (short name), "" otherwise
	BaseWhat  string            // kind:what without the @callee suffix
	RootKey   string            // contract key of the function under verification
	EntryHeap map[string]string // heap map name -> SMT constant of its value at function entry
	Sweep   bool // from a zero-annotation sweep: decided by one solver under a resource limit
}

type inputVar struct {
	Name string
	GT   types.Type
	V    Val
}

type closureRec struct {
	mc *ssa.MakeClosure
	fr *Frame
}

type Frame struct {
	fn      *ssa.Function
	env     map[ssa.Value]Val
	addrs   map[ssa.Value]Addr
	depth   int
	spec    *FuncSpec
	entry   *State // state at function entry (for old())
	params  map[string]Val
	results []string // named results
	caller  *Frame
	freeVar map[*ssa.FreeVar]Addr
	rets    []retRec
	root    bool
	loopInfo map[*ssa.BasicBlock]*loopRec
	back     map[[2]*ssa.BasicBlock]bool
	order    []*ssa.BasicBlock
}

type retRec struct {
	st  *State
	val Val
}

type loopRec struct {
	head    *ssa.BasicBlock
	blocks  map[*ssa.BasicBlock]bool
	ordinal int
	spec    *LoopSpec
	// per execution
	headState *State // state after havoc+assume (for decreases / before())
	measure   string
	invs      []linv
	entryState *State // state in which the loop was reached (before havoc)
}

type Exec struct {
	w         *World
	vc        *VC
	mode      Mode
	rootSpec  *FuncSpec
	rootFn    *ssa.Function
	heapSorts map[string]*Sort
	heapEntry map[string]string
	strConsts map[string]string
	closures  map[string]*closureRec
	cellRefs  map[int]string
	obls      []*Obligation
	assumes   map[string]bool
	unsup     []string
	cellN     int
	occ       map[string]int
	cur       *Frame
	curState  *State
	safety    bool // emit no-panic obligations
	typeIDs   map[string]int
	inputs    []inputVar
	propFilter string
	trusted   map[string]bool // ext contracts used
	inlined   map[string]bool
	lockset   bool
	budget    int
	cellCaptured map[int]bool
	havocAllSeen bool
	curPos    token.Pos
	escaped   map[int]bool
	entryNow  string
	fpBitsMemo map[string]string
	iters     map[ssa.Value]*ssa.Range
	speculating int
	curLoop   *loopRec
	pendingAlloc [][2]string
	immutNames map[string]bool
	iterGhost  map[*ssa.Range]string
	subAddrIDs map[string]int
	allocHere  map[string]bool // ref symbols introduced by allocations of this activation
	recBusy map[string]bool
	exitHits map[string]int
	returnPCs []string // path conditions of the returns of the function under verification
	holdClock  bool           // havoc for a pure callee with ghost-only effects: do not advance the allocation clock
	atCallArgs map[string]Val // callee parameter name -> argument, while an at-call clause is evaluated
	atCallSkipped map[string]bool
	inferN, inferQueries int
	inferredNames []string
}

func NewExec(w *World, mode Mode) *Exec {
	return &Exec{w: w, vc: NewVC(mode), mode: mode, heapSorts: map[string]*Sort{}, heapEntry: map[string]string{},
		strConsts: map[string]string{}, closures: map[string]*closureRec{}, cellRefs: map[int]string{},
		assumes: map[string]bool{}, occ: map[string]int{}, typeIDs: map[string]int{}, trusted: map[string]bool{}, inlined: map[string]bool{},
		cellCaptured: map[int]bool{}, escaped: map[int]bool{}, fpBitsMemo: map[string]string{}, subAddrIDs: map[string]int{}}
}

func (x *Exec) unsupported(f string, a ...interface{}) {
	m := fmt.Sprintf(f, a...)
	if x.cur != nil {
		m = x.cur.fn.String() + ": " + m
	}
	for _, u := range x.unsup {
		if u == m {
			return
		}
	}
	x.unsup = append(x.unsup, m)
}

func (x *Exec) assume1(s string) { x.assumes[s] = true }

func (x *Exec) curFnName() string {
	if x.cur != nil {
		return shortFn(x.cur.fn)
	}
	return "?"
}

func (x *Exec) curSpecOverflow() bool { return x.rootSpec != nil && x.rootSpec.Overflow }

// assumeIn strengthens the path condition of st.
func (x *Exec) assumeIn(st *State, f string) {
	if f == "true" || f == "" {
		return
	}
	st.pc = x.vc.Define("pc", sortBool, and(st.pc, f))
}

func shortFn(f *ssa.Function) string {
	s := f.String()
	s = strings.ReplaceAll(s, "github.com/blugelabs/bluge/", "")
	s = strings.ReplaceAll(s, "(*", "")
	s = strings.ReplaceAll(s, ")", "")
	s = strings.ReplaceAll(s, "(", "")
	return s
}

// oblige records a proof obligation: under the current path condition, goal.
func (x *Exec) oblige(kind, what, goal, note string) {
	x.obligeIn(x.curState, kind, what, goal, note)
}

func (x *Exec) obligeIn(st *State, kind, what, goal, note string) {
	if goal == "true" {
		// trivially true: still counted, discharged statically
	}
	fn := shortFn(x.rootFn)
	where := ""
	if x.cur != nil && x.cur.fn != x.rootFn {
		where = "@" + shortFn(x.cur.fn)
	}
	base := fmt.Sprintf("%s#%s:%s%s", fn, kind, what, where)
	x.occ[base]++
	name := base
	if x.occ[base] > 1 {
		name = fmt.Sprintf("%s@%d", base, x.occ[base])
	}
	o := &Obligation{Name: name, Fn: fn, Kind: kind, Hyps: []string{st.pc}, Goal: goal, VC: x.vc, Note: note, Inputs: x.inputs}
	if x.cur != nil && x.cur.fn != x.rootFn {
		o.InlinedFn = shortFn(x.cur.fn)
	}
	o.BaseWhat = kind + ":" + what
	if x.rootSpec != nil {
		o.Props = x.rootSpec.Props
		o.Sweep = x.rootSpec.Implicit
		o.RootKey = x.rootSpec.Key
		o.EntryHeap = x.heapEntry
	}
	x.obls = append(x.obls, o)
}

// ---------- CFG helpers ----------

func rpo(fn *ssa.Function, back map[[2]*ssa.BasicBlock]bool) []*ssa.BasicBlock {
	seen := map[*ssa.BasicBlock]bool{}
	var post []*ssa.BasicBlock
	var dfs func(b *ssa.BasicBlock)
	dfs = func(b *ssa.BasicBlock) {
		seen[b] = true
		for _, s := range b.Succs {
			if back[[2]*ssa.BasicBlock{b, s}] || seen[s] {
				continue
			}
			dfs(s)
		}
		post = append(post, b)
	}
	dfs(fn.Blocks[0])
	for i, j := 0, len(post)-1; i < j; i, j = i+1, j-1 {
		post[i], post[j] = post[j], post[i]
	}
	return post
}

func findLoops(fn *ssa.Function) (map[*ssa.BasicBlock]*loopRec, map[[2]*ssa.BasicBlock]bool) {
	loops := map[*ssa.BasicBlock]*loopRec{}
	back := map[[2]*ssa.BasicBlock]bool{}
	for _, b := range fn.Blocks {
		for _, s := range b.Succs {
			if s.Dominates(b) {
				back[[2]*ssa.BasicBlock{b, s}] = true
				l := loops[s]
				if l == nil {
					l = &loopRec{head: s, blocks: map[*ssa.BasicBlock]bool{s: true}}
					loops[s] = l
				}
				// natural loop: all blocks that reach b without passing s
				var stack []*ssa.BasicBlock
				if !l.blocks[b] {
					l.blocks[b] = true
					stack = append(stack, b)
				}
				for len(stack) > 0 {
					n := stack[len(stack)-1]
					stack = stack[:len(stack)-1]
					for _, p := range n.Preds {
						if !l.blocks[p] {
							l.blocks[p] = true
							stack = append(stack, p)
						}
					}
				}
			}
		}
	}
	return loops, back
}

// loop ordinals: k-th for/range statement of the function's syntax in source order.
func astLoops(fn *ssa.Function) []ast.Node {
	syn := fn.Syntax()
	if syn == nil {
		return nil
	}
	var out []ast.Node
	var body ast.Node
	switch s := syn.(type) {
	case *ast.FuncDecl:
		body = s.Body
	case *ast.FuncLit:
		body = s.Body
	default:
		return nil
	}
	if body == nil {
		return nil
	}
	ast.Inspect(body, func(n ast.Node) bool {
		switch n.(type) {
		case *ast.FuncLit:
			return false
		case *ast.ForStmt, *ast.RangeStmt:
			out = append(out, n)
		}
		return true
	})
	return out
}

func assignLoopOrdinals(fn *ssa.Function, loops map[*ssa.BasicBlock]*loopRec) {
	al := astLoops(fn)
	for _, l := range loops {
		var lo, hi token.Pos
		for b := range l.blocks {
			for _, in := range b.Instrs {
				p := in.Pos()
				if p == token.NoPos {
					continue
				}
				if lo == token.NoPos || p < lo {
					lo = p
				}
				if p > hi {
					hi = p
				}
			}
		}
		best := -1
		for i, n := range al {
			if lo != token.NoPos && n.Pos() <= lo && hi <= n.End() {
				if best < 0 || (al[best].End()-al[best].Pos()) > (n.End()-n.Pos()) {
					best = i
				}
			}
		}
		if best < 0 && lo != token.NoPos {
			// fall back: smallest loop containing the head's positions
			for i, n := range al {
				for _, in := range l.head.Instrs {
					p := in.Pos()
					if p != token.NoPos && n.Pos() <= p && p <= n.End() {
						if best < 0 || (al[best].End()-al[best].Pos()) > (n.End()-n.Pos()) {
							best = i
						}
					}
				}
			}
		}
		l.ordinal = best + 1
	}
	// disambiguate: two natural loops mapped to the same AST loop (e.g. continue labels) keep the same spec
}

// ---------- merging ----------

func (x *Exec) mergeStates(ins []*State) *State {
	var live []*State
	for _, s := range ins {
		if s != nil && !s.dead && s.pc != "false" {
			live = append(live, s)
		}
	}
	if len(live) == 0 {
		return nil
	}
	if len(live) == 1 {
		return live[0].clone()
	}
	out := &State{cells: map[int]Val{}, heap: map[string]string{}}
	pcs := make([]string, len(live))
	for i, s := range live {
		pcs[i] = s.pc
	}
	out.pc = x.vc.Define("pc", sortBool, or(pcs...))
	mergeLeaf := func(sort *Sort, terms []string) string {
		same := true
		for _, t := range terms[1:] {
			if t != terms[0] {
				same = false
			}
		}
		if same {
			return terms[0]
		}
		r := terms[len(terms)-1]
		for i := len(terms) - 2; i >= 0; i-- {
			r = ite(pcs[i], terms[i], r)
		}
		return x.vc.Define("m", sort, r)
	}
	// cells present in all
	for _, id := range sortedCellIDs(live[0].cells) {
		v0 := live[0].cells[id]
		ok := true
		for _, s := range live[1:] {
			if _, has := s.cells[id]; !has {
				ok = false
				break
			}
		}
		if !ok {
			continue
		}
		mv := Val{GT: v0.GT, S: v0.S, L: make([]string, len(v0.L))}
		for k := range v0.L {
			ts := make([]string, len(live))
			for i, s := range live {
				ts[i] = s.cells[id].L[k]
			}
			mv.L[k] = mergeLeaf(v0.S[k], ts)
		}
		out.cells[id] = mv
	}
	names := map[string]bool{}
	for _, s := range live {
		for n := range s.heap {
			names[n] = true
		}
	}
	for _, n := range sortedKeys(names) {
		ts := make([]string, len(live))
		for i, s := range live {
			ts[i] = x.heapGet(s, n, x.heapSorts[n])
		}
		out.heap[n] = mergeLeaf(x.heapSorts[n], ts)
	}
	nows := make([]string, len(live))
	for i, s := range live {
		nows[i] = s.now
	}
	out.now = mergeLeaf(sortInt, nows)
	// defers: require identical stacks
	out.defers = append([]*ssa.Defer{}, live[0].defers...)
	for _, s := range live[1:] {
		if len(s.defers) != len(out.defers) {
			x.unsupported("conditional defer (stacks differ at merge)")
			if len(s.defers) > len(out.defers) {
				out.defers = append([]*ssa.Defer{}, s.defers...)
			}
		}
	}
	return out
}

// ---------- running a function body ----------

type edgeKey [2]*ssa.BasicBlock

func (x *Exec) prepareFrame(fr *Frame) {
	fn := fr.fn
	loops, back := findLoops(fn)
	assignLoopOrdinals(fn, loops)
	fr.loopInfo = loops
	fr.back = back
	fr.order = rpo(fn, back)
	if fr.spec != nil && fr.root {
		used := map[int]bool{}
		for _, l := range loops {
			if ls, ok := fr.spec.Loops[l.ordinal]; ok {
				l.spec = ls
				used[l.ordinal] = true
			}
		}
		for k := range fr.spec.Loops {
			if !used[k] {
				x.bindingFailure(fmt.Sprintf("contract names loop %d of %s which does not exist", k, shortFn(fn)))
			}
		}
	}
}

func (x *Exec) runBody(fr *Frame, st *State) {
	fn := fr.fn
	if len(fn.Blocks) == 0 {
		x.unsupported("function without body %s", fn)
		return
	}
	prev := x.cur
	x.cur = fr
	defer func() { x.cur = prev }()
	x.prepareFrame(fr)
	x.runRegion(fr, fn.Blocks[0], st, nil, nil)
}

// runRegion executes the blocks of region (nil = whole function) starting at
// start in state st. If loopHead != nil the region is the body of that loop:
// states arriving at its back edges are returned instead of being checked.
func (x *Exec) runRegion(fr *Frame, start *ssa.BasicBlock, st *State, region map[*ssa.BasicBlock]bool, loopHead *loopRec) (backStates []*State) {
	loops, back := fr.loopInfo, fr.back
	edgeStates := map[edgeKey]*State{}
	for _, b := range fr.order {
		if region != nil && !region[b] {
			continue
		}
		var ins []*State
		var predOrder []*ssa.BasicBlock
		if b == start {
			ins = append(ins, st)
		} else {
			for _, p := range b.Preds {
				if back[edgeKey{p, b}] {
					continue
				}
				if s, ok := edgeStates[edgeKey{p, b}]; ok && s != nil {
					ins = append(ins, s)
					predOrder = append(predOrder, p)
				}
			}
		}
		predPC := map[*ssa.BasicBlock]string{}
		for i, p := range predOrder {
			predPC[p] = ins[i].pc
		}
		cur := x.mergeStates(ins)
		if cur == nil {
			continue
		}
		if l, ok := loops[b]; ok && !(loopHead != nil && l == loopHead) {
			cur = x.enterLoop(fr, l, cur)
		}
		x.curState = cur
		for _, in := range b.Instrs {
			if cur.dead {
				break
			}
			x.execInstr(fr, cur, in, predPC)
			cur = x.curState
		}
		if cur.dead {
			continue
		}
		send := func(to *ssa.BasicBlock, s *State) {
			// `leaves` clauses: an edge out of a loop under contract (its normal exit or a break)
			if fr.root {
				for _, l := range loops {
					if l.spec == nil || len(l.spec.Leaves) == 0 || !(l.blocks[b] || b == l.head) || l.blocks[to] || to == l.head {
						continue
					}
					for _, c := range l.spec.Leaves {
						if !x.clauseActive(c) {
							continue
						}
						x.curLoop = l
						v, err := x.evalBool(fr, s, c.E)
						x.curLoop = nil
						if err != nil {
							x.bindingFailure(fmt.Sprintf("loop%d leaves %q: %v", l.ordinal, c.Name(), err))
							continue
						}
						x.obligeIn(s, fmt.Sprintf("loop%d.leaves", l.ordinal), c.Name(), v, "")
					}
				}
			}
			if back[edgeKey{b, to}] {
				if loopHead != nil && to == loopHead.head {
					backStates = append(backStates, s)
					return
				}
				x.closeLoop(fr, loops[to], s)
				return
			}
			if region != nil && !region[to] {
				return // leaves the region
			}
			edgeStates[edgeKey{b, to}] = s
		}
		last := b.Instrs[len(b.Instrs)-1]
		switch t := last.(type) {
		case *ssa.If:
			c := x.val(fr, t.Cond).One()
			s1 := cur.clone()
			x.assumeIn(s1, c)
			s2 := cur
			x.assumeIn(s2, not(c))
			send(b.Succs[0], s1)
			send(b.Succs[1], s2)
		case *ssa.Jump:
			send(b.Succs[0], cur)
		}
	}
	return backStates
}

func (x *Exec) bindingFailure(msg string) {
	st := x.curState
	if st == nil {
		st = &State{pc: "true", cells: map[int]Val{}, heap: map[string]string{}, now: "0"}
	}
	x.obligeIn(st, "binding", msg, "false", "contract does not bind")
}

// ---------- loops ----------

// linv is one loop invariant: from the contract, automatic (range index) or inferred.
type linv struct {
	name string
	kind string // "" user, "auto", "inferred"
	eval func(st *State) (string, error)
}

func (x *Exec) loopModset(fr *Frame, l *loopRec) *ModSet {
	ms := NewModSet()
	for _, b := range fr.fn.Blocks {
		if !l.blocks[b] {
			continue
		}
		for _, in := range b.Instrs {
			x.instrMods(fr, in, ms, 0)
		}
	}
	return ms
}

// frameInvariants: a function with a stated frame (modifies / pure) keeps, in
// every loop, the entries of pre-existing objects outside its frame unchanged.
// Added as automatic loop invariants (checked at entry and at every back edge)
// for the heap maps the loop may write.
func (x *Exec) frameInvariants(fr *Frame, l *loopRec) []linv {
	spec := fr.spec
	if !fr.root || spec == nil || (len(spec.Modifies) == 0 && !spec.Pure) || spec.AssumeFrame {
		return nil
	}
	at := map[string]types.Type{}
	for k, v := range fr.params {
		if v.GT != nil {
			at[k] = v.GT
		}
	}
	fms := NewModSet()
	x.modifiesToSet(spec, fms, at, fr.params, fr.entry)
	if fms.all {
		return nil
	}
	lms := x.loopModset(fr, l)
	names := map[string]*Sort{}
	for n, s := range lms.heap {
		names[n] = s
	}
	for n := range lms.cellPts {
		names[n] = lms.psort[n]
	}
	for n, s := range lms.freshHeap {
		names[n] = s
	}
	for n := range lms.points {
		names[n] = lms.psort[n]
	}
	if lms.all {
		for n, s := range x.heapSorts {
			names[n] = s
		}
	}
	var out []linv
	x.birth()
	for _, n := range sortedKeys(names) {
		n := n
		s := names[n]
		if _, whole := fms.heap[n]; whole || strings.HasPrefix(n, "G$") || s.K != SArr {
			continue
		}
		pts := fms.points[n]
		out = append(out, linv{name: "frame " + strings.TrimPrefix(n, "H$"), kind: "auto", eval: func(st *State) (string, error) {
			cur := x.heapGet(st, n, s)
			old := x.heapGet(fr.entry, n, s)
			if cur == old {
				return "true", nil
			}
			qn := fmt.Sprintf("q!r!%d", x.nextID())
			var exc []string
			for _, r := range pts {
				exc = append(exc, not(eq(qn, r)))
			}
			guard := and(exc...)
			if s.Key.K == SRef {
				guard = and(append(exc, "(> "+qn+" 0)", "(<= (birth "+qn+") "+x.entryNow+")")...)
			}
			return "(forall ((" + qn + " " + s.Key.SMT() + ")) " + implies(guard, eq("(select "+cur+" "+qn+")", "(select "+old+" "+qn+")")) + ")", nil
		}})
	}
	return out
}

// rangeIndexAlloc finds the hidden index of a lowered range-over-slice loop.
func rangeIndexAlloc(l *loopRec) *ssa.Alloc {
	for _, in := range l.head.Instrs {
		if s, ok := in.(*ssa.Store); ok {
			if a, ok := s.Addr.(*ssa.Alloc); ok && a.Comment == "rangeindex" {
				return a
			}
		}
	}
	return nil
}

func (x *Exec) userInvariants(fr *Frame, l *loopRec) []linv {
	var out []linv
	if l.spec != nil {
		for _, c := range l.spec.Invariants {
			c := c
			if !x.clauseActive(c) {
				continue // invariant tagged for other properties only
			}
			out = append(out, linv{name: c.Name(), eval: func(st *State) (string, error) {
				x.curLoop = l
				defer func() { x.curLoop = nil }()
				return x.evalBool(fr, st, c.E)
			}})
		}
	}
	out = append(out, x.frameInvariants(fr, l)...)
	if x.lockset {
		for _, wr := range []bool{true, false} {
			wr := wr
			nm := "heldR"
			if wr {
				nm = "heldW"
			}
			out = append(out, linv{name: "lock set unchanged by an iteration (" + nm + ")", kind: "auto", eval: func(st *State) (string, error) {
				cur, _ := x.heldArr(st, wr)
				ref := l.entryState
				if ref == nil {
					ref = fr.entry
				}
				old, _ := x.heldArr(ref, wr)
				return eq(cur, old), nil
			}})
		}
	}
	if ra := rangeIndexAlloc(l); ra != nil {
		if a, ok := fr.addrs[ra]; ok && a.K == AKCell {
			out = append(out, linv{name: "rangeindex >= -1", kind: "auto", eval: func(st *State) (string, error) {
				v, ok := st.cells[a.Cell]
				if !ok {
					return "true", nil
				}
				return x.cmp(">=", v.One(), x.numLit(bigInt(-1), v.S[0]), v.S[0]), nil
			}})
		}
	}
	return out
}

func (x *Exec) enterLoop(fr *Frame, l *loopRec, st *State) *State {
	x.curState = st
	l.entryState = st.clone()
	name := fmt.Sprintf("loop%d", l.ordinal)
	invs := x.userInvariants(fr, l)
	for _, c := range invs {
		t, err := c.eval(st)
		if err != nil {
			x.bindingFailure(fmt.Sprintf("%s invariant %q: %v", name, c.name, err))
			continue
		}
		x.obligeIn(st, name+".entry", c.name, t, c.kind)
	}
	ms := x.loopModset(fr, l)
	if x.wantInfer(fr, l) && x.speculating == 0 {
		invs = append(invs, x.houdini(fr, l, st, ms, invs)...)
	} else if x.speculating > 0 {
		// nested loop inside a speculative run: reuse what the real run will infer is not
		// possible yet; use user+auto invariants only (sound: fewer assumptions)
	}
	l.invs = invs
	ns := st.clone()
	x.havoc(fr, ns, ms, "lp")
	for _, c := range invs {
		if t, err := c.eval(ns); err == nil {
			x.assumeIn(ns, t)
		}
	}
	if x.speculating == 0 && fr.root { // loops of inlined callees may sit on a path the caller's precondition excludes
		x.obligeIn(ns, "vacuity", name+" invariants satisfiable", "", "")
		x.obls[len(x.obls)-1].Kind = "vacuity"
		x.obls[len(x.obls)-1].Goal = ""
	}
	l.headState = ns.clone()
	l.measure = ""
	if l.spec != nil && l.spec.Decreases != nil {
		x.curLoop = l
		v, err := x.evalExpr(fr, ns, l.spec.Decreases.E)
		x.curLoop = nil
		if err != nil {
			x.bindingFailure(fmt.Sprintf("%s decreases: %v", name, err))
		} else {
			l.measure = x.vc.Define("measure", v.S[0], v.One())
		}
	}
	return ns
}

func (x *Exec) closeLoop(fr *Frame, l *loopRec, st *State) {
	if st == nil || st.dead {
		return
	}
	name := fmt.Sprintf("loop%d", l.ordinal)
	for _, c := range l.invs {
		if c.kind == "inferred" {
			continue // established by the fixpoint computation in houdini()
		}
		t, err := c.eval(st)
		if err != nil {
			continue
		}
		x.obligeIn(st, name+".preserve", c.name, t, c.kind)
	}
	if l.spec != nil && l.spec.Decreases != nil && l.measure != "" {
		x.curLoop = l
		v, err := x.evalExpr(fr, st, l.spec.Decreases.E)
		x.curLoop = nil
		if err == nil {
			s := v.S[0]
			z := x.zeroLeaf(s)
			x.obligeIn(st, name+".decreases", l.spec.Decreases.Src, and(x.cmp("<=", z, l.measure, s), x.cmp("<", v.One(), l.measure, s)), "")
		}
	}
}

// ---------- instructions ----------

func (x *Exec) val(fr *Frame, v ssa.Value) Val {
	switch c := v.(type) {
	case *ssa.Const:
		return x.constVal(c.Type(), c.Value)
	case *ssa.Function:
		return Val{GT: c.Type(), S: []*Sort{sortRef}, L: []string{x.funcRef(c)}}
	case *ssa.Global:
		a := x.globalAddr(c)
		return Val{GT: c.Type(), S: []*Sort{sortRef}, L: []string{a.Ref}}
	case *ssa.Builtin:
		return Val{GT: c.Type(), S: []*Sort{sortRef}, L: []string{"0"}}
	}
	if r, ok := fr.env[v]; ok {
		return r
	}
	if a, ok := fr.addrs[v]; ok {
		// address used as a value: materialise
		r := x.addrToRef(x.curState, a)
		if a.K == AKCell {
			x.escapeCell(x.curState, a)
		}
		return Val{GT: v.Type(), S: []*Sort{sortRef}, L: []string{r}}
	}
	if fv, ok := v.(*ssa.FreeVar); ok {
		if a, ok := fr.freeVar[fv]; ok {
			return Val{GT: v.Type(), S: []*Sort{sortRef}, L: []string{x.addrToRef(x.curState, a)}}
		}
	}
	x.unsupported("value %s (%T) not available", v.Name(), v)
	nv, f := x.freshVal("undef", v.Type())
	x.assumeIn(x.curState, f)
	fr.env[v] = nv
	return nv
}

func (x *Exec) funcRef(f *ssa.Function) string {
	n := "fn$" + sanitize(f.String())
	x.vc.DeclareRaw(n, "(declare-const "+n+" Int)")
	x.vc.AddAxiom(n+".nn", "(assert (> "+n+" 0))", n)
	return n
}

func (x *Exec) globalAddr(g *ssa.Global) Addr {
	n := "glob$" + sanitize(g.String())
	x.vc.DeclareRaw(n, "(declare-const "+n+" Int)")
	x.vc.AddAxiom(n+".nn", "(assert (> "+n+" 0))", n)
	pt := g.Type().(*types.Pointer).Elem()
	return x.pointerAddr(n, pt)
}

// escapeCell: the address of a cell leaked to code we do not see; from now on
// its content is unknown after every opaque call. We model this by marking it.
func (x *Exec) escapeCell(st *State, a Addr) {
	if x.escaped == nil {
		x.escaped = map[int]bool{}
	}
	x.escaped[a.Cell] = true
}

func (x *Exec) addrOf(fr *Frame, v ssa.Value) Addr {
	if a, ok := fr.addrs[v]; ok {
		return a
	}
	if fv, ok := v.(*ssa.FreeVar); ok {
		if a, ok := fr.freeVar[fv]; ok {
			return a
		}
	}
	if g, ok := v.(*ssa.Global); ok {
		return x.globalAddr(g)
	}
	pv := x.val(fr, v)
	pt, ok := v.Type().Underlying().(*types.Pointer)
	if !ok {
		x.unsupported("address of non-pointer %s", v.Type())
		return Addr{K: AKPtr, Ref: pv.L[0], T: v.Type()}
	}
	return x.pointerAddr(pv.One(), pt.Elem())
}

func isCellAlloc(a *ssa.Alloc) bool {
	t := a.Type().(*types.Pointer).Elem()
	if isArrayT(t) {
		return false
	}
	return onlyLoadStore(a, isStructT(t))
}

// onlyLoadStore: the address is used only to load / store (and, for struct values, to address
// fields that are themselves only loaded / stored): the variable can live in the symbolic store.
func onlyLoadStore(v ssa.Value, allowFields bool) bool {
	refs := v.Referrers()
	if refs == nil {
		return false
	}
	for _, r := range *refs {
		switch u := r.(type) {
		case *ssa.UnOp:
			if u.Op != token.MUL {
				return false
			}
		case *ssa.Store:
			if u.Val == v {
				return false
			}
		case *ssa.MakeClosure:
			if allowFields {
				return false // captured struct variables stay on the heap
			}
		case *ssa.DebugRef:
		case *ssa.FieldAddr:
			if !allowFields {
				return false
			}
			ft := u.Type().(*types.Pointer).Elem()
			if isArrayT(ft) {
				return false
			}
			if !onlyLoadStore(u, isStructT(ft)) {
				return false
			}
		default:
			return false
		}
	}
	return true
}

// chk: is this class of panic obligation generated for the function under verification?
func (x *Exec) chk(kind string) bool {
	sp := x.rootSpec
	if sp != nil && len(sp.Checks) > 0 {
		for _, c := range sp.Checks {
			if c == kind {
				return true
			}
		}
		if !x.safety {
			return false
		}
	}
	if !x.safety {
		return false
	}
	if sp != nil && sp.NoNil && (kind == "nil" || kind == "nilmap" || kind == "nilfunc" || kind == "nilfuncval") {
		return false
	}
	return true
}

func (x *Exec) nilCheck(st *State, ref, what string) {
	if x.chk("nil") {
		x.obligeIn(st, "nil", what, "(not (= "+ref+" 0))", "")
	}
	// after the check execution continues only if non-nil
	x.assumeIn(st, "(not (= "+ref+" 0))")
}

func (x *Exec) srcText(in ssa.Instruction) string {
	p := in.Pos()
	if p == token.NoPos {
		return in.String()
	}
	return x.w.exprTextAt(in)
}

func (x *Exec) execInstr(fr *Frame, st *State, in ssa.Instruction, predPC map[*ssa.BasicBlock]string) {
	switch i := in.(type) {
	case *ssa.DebugRef:
	case *ssa.Alloc:
		t := i.Type().(*types.Pointer).Elem()
		if isCellAlloc(i) {
			x.cellN++
			st.cells[x.cellN] = x.zeroVal(t)
			fr.addrs[i] = Addr{K: AKCell, Cell: x.cellN, T: t}
			return
		}
		r := x.newRef(st, "new")
		a := x.pointerAddr(r, t)
		switch a.K {
		case AKObj:
			x.initObject(st, t, r)
		default:
			x.storeAt(st, a, x.zeroVal(t))
		}
		fr.addrs[i] = a
		x.markFresh(st, r)
	case *ssa.Store:
		a := x.addrOf(fr, i.Addr)
		if a.K != AKCell {
			x.nilCheck(st, a.Ref, "store "+x.srcText(i))
			x.checkGuarded(fr, st, a, true, i)
			x.checkImmutable(fr, st, a, i)
		}
		x.storeAt(st, a, x.val(fr, i.Val))
	case *ssa.UnOp:
		x.execUnOp(fr, st, i)
	case *ssa.BinOp:
		x.execBinOp(fr, st, i)
	case *ssa.Phi:
		var terms []Val
		var pcs []string
		for k, e := range i.Edges {
			p := i.Block().Preds[k]
			pc, ok := predPC[p]
			if !ok {
				continue
			}
			terms = append(terms, x.val(fr, e))
			pcs = append(pcs, pc)
		}
		if len(terms) == 0 {
			v, f := x.freshVal("phi", i.Type())
			x.assumeIn(st, f)
			fr.env[i] = v
			return
		}
		out := Val{GT: i.Type(), S: terms[0].S, L: make([]string, len(terms[0].L))}
		for l := range out.L {
			r := terms[len(terms)-1].L[l]
			for k := len(terms) - 2; k >= 0; k-- {
				r = ite(pcs[k], terms[k].L[l], r)
			}
			out.L[l] = x.vc.Define("phi", out.S[l], r)
		}
		fr.env[i] = out
	case *ssa.Convert:
		x.execConvert(fr, st, i)
	case *ssa.ChangeType:
		v := x.val(fr, i.X)
		fr.env[i] = Val{GT: i.Type(), S: v.S, L: v.L}
	case *ssa.ChangeInterface:
		v := x.val(fr, i.X)
		fr.env[i] = Val{GT: i.Type(), S: v.S, L: v.L}
	case *ssa.MakeInterface:
		x.execMakeInterface(fr, st, i)
	case *ssa.TypeAssert:
		x.execTypeAssert(fr, st, i)
	case *ssa.Extract:
		tv := x.val(fr, i.Tuple)
		tt := i.Tuple.Type().(*types.Tuple)
		lo, hi := x.tupleRange(tt, i.Index)
		fr.env[i] = Val{GT: i.Type(), S: tv.S[lo:hi], L: tv.L[lo:hi]}
	case *ssa.Field:
		sv := x.val(fr, i.X)
		su := i.X.Type().Underlying().(*types.Struct)
		lo, hi := x.fieldRange(su, i.Field)
		fr.env[i] = Val{GT: i.Type(), S: sv.S[lo:hi], L: sv.L[lo:hi]}
	case *ssa.FieldAddr:
		base := x.addrOf(fr, i.X)
		pt := i.X.Type().Underlying().(*types.Pointer).Elem()
		su := pt.Underlying().(*types.Struct)
		if base.K == AKCell {
			lo, hi := x.fieldRange(su, i.Field)
			fr.addrs[i] = Addr{K: AKCell, Cell: base.Cell, Lo: base.Lo + lo, Hi: base.Lo + hi, T: su.Field(i.Field).Type()}
			return
		}
		ref := base.Ref
		if base.K == AKField {
			ref = x.subAddr(base.ST, base.Field, base.Ref)
		} else if base.K != AKObj {
			ref = x.addrToRef(st, base)
		}
		x.nilCheck(st, ref, x.srcText(i))
		fr.addrs[i] = Addr{K: AKField, Ref: ref, ST: pt, Field: i.Field, T: su.Field(i.Field).Type()}
	case *ssa.IndexAddr:
		x.execIndexAddr(fr, st, i)
	case *ssa.Index:
		x.execIndex(fr, st, i)
	case *ssa.Slice:
		x.execSlice(fr, st, i)
	case *ssa.MakeSlice:
		x.execMakeSlice(fr, st, i)
	case *ssa.MakeMap:
		r := x.newRef(st, "map")
		mt := i.Type().Underlying().(*types.Map)
		if dom, ds, vals, vs, ok := x.mapArrs(mt); ok {
			x.heapSet(st, dom, ds, "(store "+x.heapGet(st, dom, ds)+" "+r+" ((as const "+ds.Val.SMT()+") false))")
			for k := range vals {
				_ = vs[k]
			}
		}
		x.markFresh(st, r)
		fr.env[i] = Val{GT: i.Type(), S: []*Sort{sortRef}, L: []string{r}}
	case *ssa.MakeChan:
		r := x.newRef(st, "chan")
		fr.env[i] = Val{GT: i.Type(), S: []*Sort{sortRef}, L: []string{r}}
	case *ssa.MakeClosure:
		r := x.newRef(st, "clo")
		x.closures[r] = &closureRec{mc: i, fr: fr}
		fr.env[i] = Val{GT: i.Type(), S: []*Sort{sortRef}, L: []string{r}}
	case *ssa.Lookup:
		x.execLookup(fr, st, i)
	case *ssa.MapUpdate:
		x.execMapUpdate(fr, st, i)
	case *ssa.Range:
		x.execRange(fr, st, i)
	case *ssa.Next:
		x.execNext(fr, st, i)
	case *ssa.Call:
		x.execCall(fr, st, i, i.Common(), i)
	case *ssa.Go:
		x.event(st, "go", i)
		x.assume1("go statement: spawned call not followed (" + shortFn(fr.fn) + ")")
	case *ssa.Defer:
		st.defers = append(st.defers, i)
	case *ssa.RunDefers:
		ds := st.defers
		st.defers = nil
		for k := len(ds) - 1; k >= 0; k-- {
			x.execCall(fr, st, ds[k], ds[k].Common(), nil)
			st = x.curState
		}
	case *ssa.Return:
		x.execReturn(fr, st, i)
	case *ssa.Panic:
		x.execPanic(fr, st, i)
	case *ssa.If, *ssa.Jump:
	case *ssa.Send:
		x.execSend(fr, st, i)
	case *ssa.Select:
		x.execSelect(fr, st, i)
	case *ssa.SliceToArrayPointer, *ssa.MultiConvert:
		x.unsupported("instruction %T", in)
		v, f := x.freshVal("uns", in.(ssa.Value).Type())
		x.assumeIn(st, f)
		fr.env[in.(ssa.Value)] = v
	default:
		x.unsupported("instruction %T", in)
		if v, ok := in.(ssa.Value); ok {
			nv, f := x.freshVal("uns", v.Type())
			x.assumeIn(st, f)
			fr.env[v] = nv
		}
	}
}

func (x *Exec) markFresh(st *State, r string) {}

func (x *Exec) event(st *State, kind string, in ssa.Instruction) {}

func (x *Exec) execUnOp(fr *Frame, st *State, i *ssa.UnOp) {
	switch i.Op {
	case token.MUL:
		a := x.addrOf(fr, i.X)
		if a.K != AKCell {
			x.nilCheck(st, a.Ref, "load "+x.srcText(i))
			x.checkGuarded(fr, st, a, false, i)
		}
		v := x.loadAt(st, a)
		if g, ok := i.X.(*ssa.Global); ok && len(v.L) == 4 {
			if n, ok := x.w.constLenGlobals()[g]; ok {
				// lookup table initialised once with a literal: its length is known
				is := x.idxSort()
				x.assumeIn(st, and(eq(v.L[2], x.numLit(bigInt(n), is)), not(eq(v.L[0], "0"))))
				x.assume1("package-level table " + g.Name() + " keeps the length of its initialiser (never reassigned)")
			}
		}
		fr.env[i] = v
	case token.NOT:
		fr.env[i] = Val{GT: i.Type(), S: []*Sort{sortBool}, L: []string{not(x.val(fr, i.X).One())}}
	case token.SUB:
		v := x.val(fr, i.X)
		s := v.S[0]
		var t string
		switch s.K {
		case SBV:
			t = "(bvneg " + v.One() + ")"
		case SFP:
			t = "(fp.neg " + v.One() + ")"
		case SReal:
			t = "(- " + v.One() + ")"
		default:
			t = x.wrapArith("(- 0 "+v.One()+")", s)
		}
		fr.env[i] = Val{GT: i.Type(), S: v.S, L: []string{x.vc.Define("neg", s, t)}}
	case token.XOR:
		v := x.val(fr, i.X)
		s := v.S[0]
		var t string
		if s.K == SBV {
			t = "(bvnot " + v.One() + ")"
		} else if s.Signed {
			t = "(- (- " + v.One() + ") 1)"
		} else {
			_, hi := rangeOf(s)
			t = "(- " + intLit(hi) + " " + v.One() + ")"
		}
		fr.env[i] = Val{GT: i.Type(), S: v.S, L: []string{x.vc.Define("cpl", s, t)}}
	case token.ARROW:
		x.execRecv(fr, st, i)
	default:
		x.unsupported("unop %v", i.Op)
	}
}

func (x *Exec) execBinOp(fr *Frame, st *State, i *ssa.BinOp) {
	a, b := x.val(fr, i.X), x.val(fr, i.Y)
	if len(a.L) != 1 || len(b.L) != 1 {
		// composite comparison (interfaces, structs, slices vs nil)
		if i.Op == token.EQL || i.Op == token.NEQ {
			var t string
			if _, isSlice := i.X.Type().Underlying().(*types.Slice); isSlice {
				t = eq(a.L[0], b.L[0]) // slice == nil: base is nil
			} else if _, isIface := i.X.Type().Underlying().(*types.Interface); isIface {
				t = x.ifaceEq(a, b)
			} else {
				var es []string
				for k := range a.L {
					es = append(es, eq(a.L[k], b.L[k]))
				}
				t = and(es...)
			}
			if i.Op == token.NEQ {
				t = not(t)
			}
			fr.env[i] = Val{GT: i.Type(), S: []*Sort{sortBool}, L: []string{x.vc.Define("cmp", sortBool, t)}}
			return
		}
		x.unsupported("binop %v on composite", i.Op)
		v, _ := x.freshVal("bin", i.Type())
		fr.env[i] = v
		return
	}
	s := a.S[0]
	if s.K == SStr && i.Op != token.EQL && i.Op != token.NEQ && i.Op != token.ADD {
		x.needStr()
		x.uf("str.lt", "(VStr VStr) Bool")
		var t string
		switch i.Op {
		case token.LSS:
			t = "(str.lt " + a.One() + " " + b.One() + ")"
		case token.GTR:
			t = "(str.lt " + b.One() + " " + a.One() + ")"
		case token.LEQ:
			t = "(not (str.lt " + b.One() + " " + a.One() + "))"
		case token.GEQ:
			t = "(not (str.lt " + a.One() + " " + b.One() + "))"
		}
		fr.env[i] = boolValT(i.Type(), x.vc.Define("scmp", sortBool, t))
		return
	}
	if x.chk("divzero") && (i.Op == token.QUO || i.Op == token.REM) && (s.K == SInt || s.K == SBV) {
		x.obligeIn(st, "divzero", x.srcText(i), not(eq(b.One(), x.zeroLeaf(s))), "")
		x.assumeIn(st, not(eq(b.One(), x.zeroLeaf(s))))
	}
	if (i.Op == token.SHL || i.Op == token.SHR) && b.S[0].Signed && x.chk("negshift") {
		x.obligeIn(st, "negshift", x.srcText(i), x.cmp(">=", b.One(), x.zeroLeaf(b.S[0]), b.S[0]), "")
	}
	t, rs := x.binop(i.Op, a.One(), b.One(), s, b.S[0])
	fr.env[i] = Val{GT: i.Type(), S: []*Sort{rs}, L: []string{x.vc.Define("b", rs, t)}}
}

func boolValT(t types.Type, term string) Val {
	return Val{GT: t, S: []*Sort{sortBool}, L: []string{term}}
}

func (x *Exec) ifaceEq(a, b Val) string {
	// nil interface: tag 0. Equality of non-nil interfaces: same tag and same payload ref.
	return and(eq(a.L[0], b.L[0]), or(eq(a.L[0], "0"), eq(a.L[1], b.L[1])))
}

func (x *Exec) typeID(t types.Type) string {
	k := types.TypeString(t, nil)
	id, ok := x.typeIDs[k]
	if !ok {
		id = len(x.typeIDs) + 1
		x.typeIDs[k] = id
	}
	return fmt.Sprint(id)
}

func (x *Exec) execMakeInterface(fr *Frame, st *State, i *ssa.MakeInterface) {
	v := x.val(fr, i.X)
	tag := x.typeID(i.X.Type())
	var ref string
	if len(v.L) == 1 && v.S[0].K == SRef {
		ref = v.L[0]
	} else {
		// box the value
		ref = x.newRef(st, "box")
		x.storeAt(st, Addr{K: AKPtr, Ref: ref, T: i.X.Type()}, v)
	}
	fr.env[i] = Val{GT: i.Type(), S: []*Sort{sortRef, sortRef}, L: []string{tag, ref}}
}

func (x *Exec) execTypeAssert(fr *Frame, st *State, i *ssa.TypeAssert) {
	v := x.val(fr, i.X)
	var ok string
	var res Val
	if _, isIface := i.AssertedType.Underlying().(*types.Interface); isIface {
		fn := "implements$" + typeKey(i.AssertedType)
		x.vc.DeclareRaw(fn, "(declare-fun "+fn+" (Int) Bool)")
		ok = and(not(eq(v.L[0], "0")), "("+fn+" "+v.L[0]+")")
		res = Val{GT: i.AssertedType, S: v.S, L: v.L}
	} else {
		tag := x.typeID(i.AssertedType)
		ok = eq(v.L[0], tag)
		ss := x.layout(i.AssertedType)
		if len(ss) == 1 && ss[0].K == SRef {
			res = Val{GT: i.AssertedType, S: ss, L: []string{v.L[1]}}
		} else {
			res = x.loadAt(st, Addr{K: AKPtr, Ref: v.L[1], T: i.AssertedType})
		}
	}
	okd := x.vc.Define("ta", sortBool, ok)
	if i.CommaOk {
		// result is (value-or-zero, ok)
		z := x.zeroVal(i.AssertedType)
		out := Val{GT: i.Type()}
		for k := range res.L {
			out.S = append(out.S, res.S[k])
			out.L = append(out.L, x.vc.Define("tav", res.S[k], ite(okd, res.L[k], z.L[k])))
		}
		out.S = append(out.S, sortBool)
		out.L = append(out.L, okd)
		fr.env[i] = out
		return
	}
	if x.chk("typeassert") {
		x.obligeIn(st, "typeassert", x.srcText(i), okd, "")
	}
	x.assumeIn(st, okd)
	fr.env[i] = res
}

func (x *Exec) execConvert(fr *Frame, st *State, i *ssa.Convert) {
	v := x.val(fr, i.X)
	from, to := i.X.Type().Underlying(), i.Type().Underlying()
	ts := x.layout(i.Type())
	fb, fIsBasic := from.(*types.Basic)
	tb, tIsBasic := to.(*types.Basic)
	switch {
	case fIsBasic && tIsBasic && fb.Info()&types.IsNumeric != 0 && tb.Info()&types.IsNumeric != 0:
		t := x.convert(v.One(), v.S[0], ts[0])
		fr.env[i] = Val{GT: i.Type(), S: ts, L: []string{x.vc.Define("cv", ts[0], t)}}
	case fIsBasic && fb.Info()&types.IsString != 0 && isByteSlice(to):
		// []byte(s): fresh backing array whose content is the string's bytes
		x.needStr()
		r := x.newRef(st, "s2b")
		x.vc.DeclareRaw("str.bytes", "(declare-fun str.bytes (VStr) (Array Int Int))")
		x.vc.AddAxiom("str.bytes.at", "(assert (forall ((s VStr) (i Int)) (! (= (select (str.bytes s) i) (str.at s i)) :pattern ((select (str.bytes s) i)))))", "str.bytes")
		el := to.(*types.Slice).Elem()
		es := x.layout(el)[0]
		name, as := x.elemArr(el, 0, es)
		if !x.mode.BV {
			x.heapSet(st, name, as, "(store "+x.heapGet(st, name, as)+" "+r+" (str.bytes "+v.One()+"))")
		} else {
			fa := x.vc.Declare("s2barr", as.Val)
			x.heapSet(st, name, as, "(store "+x.heapGet(st, name, as)+" "+r+" "+fa+")")
		}
		l := x.vc.Define("len", x.idxSort(), x.strLen(v.One()))
		z := x.zeroLeaf(x.idxSort())
		fr.env[i] = Val{GT: i.Type(), S: ts, L: []string{r, z, l, l}}
	case isByteSlice(from) && tIsBasic && tb.Info()&types.IsString != 0:
		x.needStr()
		el := from.(*types.Slice).Elem()
		es := x.layout(el)[0]
		name, as := x.elemArr(el, 0, es)
		arr := "(select " + x.heapGet(st, name, as) + " " + v.L[0] + ")"
		if x.mode.BV {
			s := x.vc.Declare("b2s", sortStr)
			x.assumeIn(st, eq(x.strLen(s), v.L[2]))
			fr.env[i] = Val{GT: i.Type(), S: ts, L: []string{s}}
			return
		}
		x.vc.DeclareRaw("str.of", "(declare-fun str.of ((Array Int Int) Int Int) VStr)")
		x.vc.AddAxiom("str.of.len", "(assert (forall ((a (Array Int Int)) (o Int) (l Int)) (! (=> (>= l 0) (= (str.len (str.of a o l)) l)) :pattern ((str.of a o l)))))", "str.of")
		x.vc.AddAxiom("str.of.at", "(assert (forall ((a (Array Int Int)) (o Int) (l Int) (i Int)) (! (=> (and (<= 0 i) (< i l)) (= (str.at (str.of a o l) i) (select a (+ o i)))) :pattern ((str.at (str.of a o l) i)))))", "str.of")
		fr.env[i] = Val{GT: i.Type(), S: ts, L: []string{x.vc.Define("b2s", sortStr, "(str.of "+arr+" "+v.L[1]+" "+v.L[2]+")")}}
	case fIsBasic && fb.Info()&types.IsString != 0 && isRuneSlice(to):
		x.needStr()
		r := x.newRef(st, "s2r")
		l := x.vc.Declare("runelen", x.idxSort())
		z := x.zeroLeaf(x.idxSort())
		x.assumeIn(st, and(x.cmp("<=", z, l, x.idxSort()), x.cmp("<=", l, x.strLen(v.One()), x.idxSort()),
			implies(x.cmp(">", x.strLen(v.One()), z, x.idxSort()), x.cmp(">", l, z, x.idxSort()))))
		fr.env[i] = Val{GT: i.Type(), S: ts, L: []string{r, z, l, l}}
	case tIsBasic && tb.Info()&types.IsString != 0:
		// string(rune), string([]rune)
		x.needStr()
		s := x.vc.Declare("tostr", sortStr)
		if isRuneSlice(from) {
			// utf8 length between len and 4*len
			ls := x.strLen(s)
			is := x.idxSort()
			four := x.numLit(bigInt(4), is)
			var mul string
			if x.mode.BV {
				mul = "(bvmul " + four + " " + v.L[2] + ")"
			} else {
				mul = "(* 4 " + v.L[2] + ")"
			}
			x.assumeIn(st, and(x.cmp("<=", v.L[2], ls, is), x.cmp("<=", ls, mul, is)))
		}
		fr.env[i] = Val{GT: i.Type(), S: ts, L: []string{s}}
	case len(v.L) == len(ts):
		// pointer <-> unsafe.Pointer, etc
		fr.env[i] = Val{GT: i.Type(), S: ts, L: v.L}
	default:
		x.unsupported("convert %s -> %s", i.X.Type(), i.Type())
		nv, f := x.freshVal("cv", i.Type())
		x.assumeIn(st, f)
		fr.env[i] = nv
	}
}

func isByteSlice(t types.Type) bool {
	s, ok := t.(*types.Slice)
	if !ok {
		return false
	}
	b, ok := s.Elem().Underlying().(*types.Basic)
	return ok && b.Kind() == types.Uint8
}

func isRuneSlice(t types.Type) bool {
	s, ok := t.(*types.Slice)
	if !ok {
		return false
	}
	b, ok := s.Elem().Underlying().(*types.Basic)
	return ok && b.Kind() == types.Int32
}

// ---------- slices ----------

func (x *Exec) add(a, b string, s *Sort) string {
	if s.K == SBV {
		return "(bvadd " + a + " " + b + ")"
	}
	if a == "0" {
		return b
	}
	if b == "0" {
		return a
	}
	return "(+ " + a + " " + b + ")"
}

func (x *Exec) sub(a, b string, s *Sort) string {
	if s.K == SBV {
		return "(bvsub " + a + " " + b + ")"
	}
	if b == "0" {
		return a
	}
	return "(- " + a + " " + b + ")"
}

func (x *Exec) idxConv(v Val) string {
	return x.convert(v.One(), v.S[0], x.idxSort())
}

func (x *Exec) execIndexAddr(fr *Frame, st *State, i *ssa.IndexAddr) {
	is := x.idxSort()
	idx := x.idxConv(x.val(fr, i.Index))
	z := x.zeroLeaf(is)
	switch t := i.X.Type().Underlying().(type) {
	case *types.Slice:
		sv := x.val(fr, i.X)
		if x.chk("index") {
			x.obligeIn(st, "index", x.srcText(i), and(x.cmp("<=", z, idx, is), x.cmp("<", idx, sv.L[2], is)), "")
		}
		x.assumeIn(st, and(x.cmp("<=", z, idx, is), x.cmp("<", idx, sv.L[2], is)))
		fr.addrs[i] = Addr{K: AKElem, Ref: sv.L[0], Idx: x.vc.Define("ix", is, x.add(sv.L[1], idx, is)), T: t.Elem()}
	case *types.Pointer:
		at := t.Elem().Underlying().(*types.Array)
		a := x.addrOf(fr, i.X)
		ref := a.Ref
		if a.K == AKField {
			ref = x.subAddr(a.ST, a.Field, a.Ref)
		}
		n := x.numLit(bigInt(at.Len()), is)
		if x.chk("index") {
			x.obligeIn(st, "index", x.srcText(i), and(x.cmp("<=", z, idx, is), x.cmp("<", idx, n, is)), "")
		}
		x.assumeIn(st, and(x.cmp("<=", z, idx, is), x.cmp("<", idx, n, is)))
		fr.addrs[i] = Addr{K: AKElem, Ref: ref, Idx: idx, T: at.Elem()}
	default:
		x.unsupported("IndexAddr on %s", i.X.Type())
	}
}

func (x *Exec) execIndex(fr *Frame, st *State, i *ssa.Index) {
	is := x.idxSort()
	idx := x.idxConv(x.val(fr, i.Index))
	z := x.zeroLeaf(is)
	xv := x.val(fr, i.X)
	switch t := i.X.Type().Underlying().(type) {
	case *types.Array:
		n := x.numLit(bigInt(t.Len()), is)
		if x.chk("index") {
			x.obligeIn(st, "index", x.srcText(i), and(x.cmp("<=", z, idx, is), x.cmp("<", idx, n, is)), "")
		}
		if len(xv.S) == 1 && xv.S[0].K == SArr {
			fr.env[i] = Val{GT: i.Type(), S: []*Sort{xv.S[0].Val}, L: []string{x.vc.Define("ai", xv.S[0].Val, "(select "+xv.One()+" "+idx+")")}}
			return
		}
	case *types.Basic: // string
		l := x.strLen(xv.One())
		if x.chk("index") {
			x.obligeIn(st, "index", x.srcText(i), and(x.cmp("<=", z, idx, is), x.cmp("<", idx, l, is)), "")
		}
		x.assumeIn(st, and(x.cmp("<=", z, idx, is), x.cmp("<", idx, l, is)))
		bs := x.layout(i.Type())[0]
		var t2 string
		if x.mode.BV {
			t2 = "((_ int2bv 8) (str.at " + xv.One() + " (bv2nat " + idx + ")))"
		} else {
			t2 = "(str.at " + xv.One() + " " + idx + ")"
		}
		fr.env[i] = Val{GT: i.Type(), S: []*Sort{bs}, L: []string{x.vc.Define("sb", bs, t2)}}
		return
	}
	x.unsupported("Index on %s", i.X.Type())
	v, f := x.freshVal("idx", i.Type())
	x.assumeIn(st, f)
	fr.env[i] = v
}

func bigInt(n int64) *big_Int { return newBig(n) }


func (x *Exec) execSlice(fr *Frame, st *State, i *ssa.Slice) {
	is := x.idxSort()
	z := x.zeroLeaf(is)
	var lo, hi, max string
	if i.Low != nil {
		lo = x.idxConv(x.val(fr, i.Low))
	} else {
		lo = z
	}
	switch t := i.X.Type().Underlying().(type) {
	case *types.Slice:
		sv := x.val(fr, i.X)
		if i.High != nil {
			hi = x.idxConv(x.val(fr, i.High))
		} else {
			hi = sv.L[2]
		}
		if i.Max != nil {
			max = x.idxConv(x.val(fr, i.Max))
		} else {
			max = sv.L[3]
		}
		cond := and(x.cmp("<=", z, lo, is), x.cmp("<=", lo, hi, is), x.cmp("<=", hi, max, is), x.cmp("<=", max, sv.L[3], is))
		if x.chk("slice") {
			x.obligeIn(st, "slice", x.srcText(i), cond, "")
		}
		x.assumeIn(st, cond)
		fr.env[i] = Val{GT: i.Type(), S: sv.S, L: []string{sv.L[0],
			x.vc.Define("so", is, x.add(sv.L[1], lo, is)),
			x.vc.Define("sl", is, x.sub(hi, lo, is)),
			x.vc.Define("sc", is, x.sub(max, lo, is))}}
	case *types.Basic: // string
		sv := x.val(fr, i.X)
		l := x.strLen(sv.One())
		if i.High != nil {
			hi = x.idxConv(x.val(fr, i.High))
		} else {
			hi = l
		}
		cond := and(x.cmp("<=", z, lo, is), x.cmp("<=", lo, hi, is), x.cmp("<=", hi, l, is))
		if x.chk("slice") {
			x.obligeIn(st, "slice", x.srcText(i), cond, "")
		}
		x.assumeIn(st, cond)
		x.uf("str.sub", "(VStr Int Int) VStr")
		x.vc.AddAxiom("str.sub.len", "(assert (forall ((s VStr) (a Int) (b Int)) (! (=> (and (<= 0 a) (<= a b) (<= b (str.len s))) (= (str.len (str.sub s a b)) (- b a))) :pattern ((str.sub s a b)))))", "str.sub")
		x.vc.AddAxiom("str.sub.at", "(assert (forall ((s VStr) (a Int) (b Int) (i Int)) (! (=> (and (<= 0 a) (<= a b) (<= b (str.len s)) (<= 0 i) (< i (- b a))) (= (str.at (str.sub s a b) i) (str.at s (+ a i)))) :pattern ((str.at (str.sub s a b) i)))))", "str.sub")
		a, b := lo, hi
		if x.mode.BV {
			a, b = "(bv2nat "+lo+")", "(bv2nat "+hi+")"
		}
		fr.env[i] = Val{GT: i.Type(), S: []*Sort{sortStr}, L: []string{x.vc.Define("ss", sortStr, "(str.sub "+sv.One()+" "+a+" "+b+")")}}
	case *types.Pointer:
		at := t.Elem().Underlying().(*types.Array)
		a := x.addrOf(fr, i.X)
		ref := a.Ref
		if a.K == AKField {
			ref = x.subAddr(a.ST, a.Field, a.Ref)
		}
		n := x.numLit(bigInt(at.Len()), is)
		if i.High != nil {
			hi = x.idxConv(x.val(fr, i.High))
		} else {
			hi = n
		}
		if i.Max != nil {
			max = x.idxConv(x.val(fr, i.Max))
		} else {
			max = n
		}
		cond := and(x.cmp("<=", z, lo, is), x.cmp("<=", lo, hi, is), x.cmp("<=", hi, max, is), x.cmp("<=", max, n, is))
		if x.chk("slice") {
			x.obligeIn(st, "slice", x.srcText(i), cond, "")
		}
		x.assumeIn(st, cond)
		fr.env[i] = Val{GT: i.Type(), S: x.layout(i.Type()), L: []string{ref, lo, x.vc.Define("sl", is, x.sub(hi, lo, is)), x.vc.Define("sc", is, x.sub(max, lo, is))}}
	default:
		x.unsupported("Slice on %s", i.X.Type())
	}
}

func (x *Exec) execMakeSlice(fr *Frame, st *State, i *ssa.MakeSlice) {
	is := x.idxSort()
	z := x.zeroLeaf(is)
	l := x.idxConv(x.val(fr, i.Len))
	c := x.idxConv(x.val(fr, i.Cap))
	cond := and(x.cmp("<=", z, l, is), x.cmp("<=", l, c, is))
	if x.chk("makeslice") {
		x.obligeIn(st, "makeslice", x.srcText(i), cond, "")
		if b := x.allocBudget(fr); b != "" {
			x.obligeIn(st, "makeslice.budget", x.srcText(i), x.cmp("<=", c, b, is), "allocation bounded by contract budget")
		}
	}
	x.assumeIn(st, cond)
	r := x.newRef(st, "mk")
	el := i.Type().Underlying().(*types.Slice).Elem()
	for k, s := range x.layout(el) {
		name, as := x.elemArr(el, k, s)
		x.heapSet(st, name, as, "(store "+x.heapGet(st, name, as)+" "+r+" ((as const "+as.Val.SMT()+") "+x.zeroLeaf(s)+"))")
	}
	x.markFresh(st, r)
	fr.env[i] = Val{GT: i.Type(), S: x.layout(i.Type()), L: []string{r, z, l, c}}
}

func (x *Exec) allocBudget(fr *Frame) string {
	if x.rootSpec == nil || x.rootSpec.AllocBudget == nil {
		return ""
	}
	root := fr
	for root.caller != nil {
		root = root.caller
	}
	c := &EvalCtx{x: x, names: root.params, st: root.entry, old: root.entry, oldNames: root.params}
	v, err := c.eval(x.rootSpec.AllocBudget.E, x.idxSort())
	if err != nil || len(v.L) != 1 {
		x.bindingFailure(fmt.Sprintf("alloc_budget: %v", err))
		return ""
	}
	return x.convert(v.One(), v.S[0], x.idxSort())
}

// ---------- maps ----------

func (x *Exec) execLookup(fr *Frame, st *State, i *ssa.Lookup) {
	mv := x.val(fr, i.X)
	kv := x.val(fr, i.Index)
	if b, ok := i.X.Type().Underlying().(*types.Basic); ok && b.Info()&types.IsString != 0 {
		// string indexing through Lookup
		is := x.idxSort()
		idx := x.idxConv(kv)
		z := x.zeroLeaf(is)
		l := x.strLen(mv.One())
		if x.chk("index") {
			x.obligeIn(st, "index", x.srcText(i), and(x.cmp("<=", z, idx, is), x.cmp("<", idx, l, is)), "")
		}
		x.assumeIn(st, and(x.cmp("<=", z, idx, is), x.cmp("<", idx, l, is)))
		bs := x.layout(i.Type())[0]
		t2 := "(str.at " + mv.One() + " " + idx + ")"
		if x.mode.BV {
			t2 = "((_ int2bv 8) (str.at " + mv.One() + " (bv2nat " + idx + ")))"
		}
		fr.env[i] = Val{GT: i.Type(), S: []*Sort{bs}, L: []string{x.vc.Define("sb", bs, t2)}}
		return
	}
	mt := i.X.Type().Underlying().(*types.Map)
	dom, ds, vals, vs, ok := x.mapArrs(mt)
	vt := mt.Elem()
	if !ok {
		x.unsupported("map with composite key %s", mt)
		v, f := x.freshVal("lk", i.Type())
		x.assumeIn(st, f)
		fr.env[i] = v
		return
	}
	in := x.vc.Define("in", sortBool, and(not(eq(mv.One(), "0")), "(select (select "+x.heapGet(st, dom, ds)+" "+mv.One()+") "+kv.One()+")"))
	out := Val{GT: vt}
	zv := x.zeroVal(vt)
	for k, s := range x.layout(vt) {
		raw := "(select (select " + x.heapGet(st, vals[k], vs[k]) + " " + mv.One() + ") " + kv.One() + ")"
		out.S = append(out.S, s)
		out.L = append(out.L, x.vc.Define("mv", s, ite(in, raw, zv.L[k])))
	}
	x.assumeIn(st, and(x.typeFacts(out), x.refFacts(st, out)))
	if i.CommaOk {
		out.GT = i.Type()
		out.S = append(out.S, sortBool)
		out.L = append(out.L, in)
	}
	fr.env[i] = out
}

func (x *Exec) execMapUpdate(fr *Frame, st *State, i *ssa.MapUpdate) {
	mv := x.val(fr, i.Map)
	kv := x.val(fr, i.Key)
	vv := x.val(fr, i.Value)
	if x.chk("nilmap") {
		x.obligeIn(st, "nilmap", x.srcText(i), not(eq(mv.One(), "0")), "")
	}
	x.assumeIn(st, not(eq(mv.One(), "0")))
	mt := i.Map.Type().Underlying().(*types.Map)
	dom, ds, vals, vs, ok := x.mapArrs(mt)
	if !ok {
		x.unsupported("map with composite key %s", mt)
		return
	}
	d := x.heapGet(st, dom, ds)
	x.heapSet(st, dom, ds, "(store "+d+" "+mv.One()+" (store (select "+d+" "+mv.One()+") "+kv.One()+" true))")
	for k := range vals {
		a := x.heapGet(st, vals[k], vs[k])
		x.heapSet(st, vals[k], vs[k], "(store "+a+" "+mv.One()+" (store (select "+a+" "+mv.One()+") "+kv.One()+" "+vv.L[k]+"))")
	}
}

// range over map / string: iterator is an opaque value; Next yields arbitrary
// (ok, key, value) constrained to the domain at the time of Next.
type iterRec struct {
	x   ssa.Value
	str bool
}

// visitedName: ghost set of the keys a map iteration has yielded so far.
func (x *Exec) visitedName(i *ssa.Range) (string, *Sort, bool) {
	mt, ok := i.X.Type().Underlying().(*types.Map)
	if !ok {
		return "", nil, false
	}
	ks := x.layout(mt.Key())
	if len(ks) != 1 {
		return "", nil, false
	}
	if x.iterGhost == nil {
		x.iterGhost = map[*ssa.Range]string{}
	}
	n, ok := x.iterGhost[i]
	if !ok {
		n = fmt.Sprintf("G$visited$%d", len(x.iterGhost)+1)
		x.iterGhost[i] = n
	}
	return n, &Sort{K: SArr, Key: ks[0], Val: sortBool}, true
}

func (x *Exec) execRange(fr *Frame, st *State, i *ssa.Range) {
	if n, s, ok := x.visitedName(i); ok {
		x.heapSet(st, n, s, "((as const "+s.SMT()+") false)")
	}
	r := x.vc.Declare("iter", sortRef)
	if x.iters == nil {
		x.iters = map[ssa.Value]*ssa.Range{}
	}
	x.iters[i] = i
	fr.env[i] = Val{GT: i.Type(), S: []*Sort{sortRef}, L: []string{r}}
}

func (x *Exec) execNext(fr *Frame, st *State, i *ssa.Next) {
	rng, _ := i.Iter.(*ssa.Range)
	tt := i.Type().(*types.Tuple)
	okv := x.vc.Declare("next.ok", sortBool)
	out := Val{GT: i.Type(), S: []*Sort{sortBool}, L: []string{okv}}
	if i.IsString {
		is := x.idxSort()
		k := x.vc.Declare("next.i", is)
		rs := x.layout(tt.At(2).Type())[0]
		rv := x.vc.Declare("next.r", rs)
		out.S = append(out.S, is, rs)
		out.L = append(out.L, k, rv)
		if rng != nil {
			sv := x.val(fr, rng.X)
			z := x.zeroLeaf(is)
			x.assumeIn(st, implies(okv, and(x.cmp("<=", z, k, is), x.cmp("<", k, x.strLen(sv.One()), is))))
		}
		x.assumeIn(st, and(rangeFact(rs, rv), x.runeFact(rv, rs)))
		fr.env[i] = out
		return
	}
	kt, vt := tt.At(1).Type(), tt.At(2).Type()
	var mt *types.Map
	if rng != nil {
		mt, _ = rng.X.Type().Underlying().(*types.Map)
	}
	// unused key/value slots have an invalid type in the tuple: reason with the map's own types,
	// but keep the tuple layout
	rkt, rvt := kt, vt
	if mt != nil {
		rkt, rvt = mt.Key(), mt.Elem()
	}
	kval, f1 := x.freshVal("next.k", rkt)
	vval, f2 := x.freshVal("next.v", rvt)
	x.assumeIn(st, and(f1, f2, x.refFacts(st, kval), x.refFacts(st, vval)))
	appendSlot := func(slotT types.Type, v Val) {
		ls := x.layout(slotT)
		if len(ls) == len(v.L) {
			out.S = append(out.S, v.S...)
			out.L = append(out.L, v.L...)
			return
		}
		for _, s := range ls {
			out.S = append(out.S, s)
			out.L = append(out.L, x.zeroLeaf(s))
		}
	}
	appendSlot(kt, kval)
	appendSlot(vt, vval)
	if mt != nil {
		mv := x.val(fr, rng.X)
		if dom, ds, _, _, ok := x.mapArrs(mt); ok && len(kval.L) == 1 {
			if vn, vsrt, ok := x.visitedName(rng); ok {
				// each key is yielded at most once; when the iteration ends every key of the map has been yielded
				vis := x.heapGet(st, vn, vsrt)
				x.assumeIn(st, implies(okv, not("(select "+vis+" "+kval.One()+")")))
				q := fmt.Sprintf("q!k!%d", x.nextID())
				x.assumeIn(st, implies(not(okv), "(forall (("+q+" "+vsrt.Key.SMT()+")) (! (=> (and (not (= "+mv.One()+" 0)) (select (select "+x.heapGet(st, dom, ds)+" "+mv.One()+") "+q+")) (select "+vis+" "+q+")) :pattern ((select "+vis+" "+q+"))))"))
				x.heapSet(st, vn, vsrt, ite(okv, "(store "+vis+" "+kval.One()+" true)", vis))
			}
		}
		if dom, ds, vals, vs, ok := x.mapArrs(mt); ok && len(kval.L) == 1 {
			var facts []string
			facts = append(facts, not(eq(mv.One(), "0")), "(select (select "+x.heapGet(st, dom, ds)+" "+mv.One()+") "+kval.One()+")")
			for k := range vals {
				if k < len(vval.L) {
					facts = append(facts, eq(vval.L[k], "(select (select "+x.heapGet(st, vals[k], vs[k])+" "+mv.One()+") "+kval.One()+")"))
				}
			}
			x.assumeIn(st, implies(okv, and(facts...)))
		}
	}
	fr.env[i] = out
}

func (x *Exec) runeFact(r string, s *Sort) string {
	if s.K == SBV {
		return "(and (bvsle #x00000000 " + r + ") (bvsle " + r + " #x0010ffff))"
	}
	return "(and (<= 0 " + r + ") (<= " + r + " 1114111))"
}

// ---------- return / panic ----------

func (x *Exec) execReturn(fr *Frame, st *State, i *ssa.Return) {
	sig := fr.fn.Signature
	out := Val{GT: sig.Results()}
	for _, r := range i.Results {
		v := x.val(fr, r)
		out.S = append(out.S, v.S...)
		out.L = append(out.L, v.L...)
	}
	if sig.Results().Len() == 1 {
		out.GT = sig.Results().At(0).Type()
	}
	if x.speculating > 0 {
		st.dead = true
		return
	}
	if fr.root {
		x.checkEnsures(fr, st, out)
	}
	fr.rets = append(fr.rets, retRec{st.clone(), out})
	st.dead = true
}

func (x *Exec) execPanic(fr *Frame, st *State, i *ssa.Panic) {
	// a declared panic (panics_if) makes the path legitimate
	if fr.spec != nil && len(fr.spec.Panics) > 0 {
		var cs []string
		for _, c := range fr.spec.Panics {
			if t, err := x.evalBoolOld(fr, st, c.E); err == nil {
				cs = append(cs, t)
			}
		}
		x.obligeIn(st, "panic", "only-when-declared "+x.srcText(i), or(cs...), "")
	} else if x.chk("panic") || fr.root {
		x.obligeIn(st, "panic", "unreachable "+x.srcText(i), "false", "")
	}
	st.dead = true
}

func sortedCellIDs(m map[int]Val) []int {
	out := make([]int, 0, len(m))
	for k := range m {
		out = append(out, k)
	}
	sort.Ints(out)
	return out
}

// sorted helper
func sortedInts(m map[int]bool) []int {
	var out []int
	for k := range m {
		out = append(out, k)
	}
	sort.Ints(out)
	return out
}
