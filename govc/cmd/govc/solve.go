package main

import (
	"bytes"
	"context"
	"fmt"
	"os"
	"os/exec"
	"path/filepath"
	"strings"
	"sync"
	"time"
)

type solverSpec struct {
	name string
	args func(file string, timeoutS float64) []string
}

var solvers = []solverSpec{
	{"z3-new", func(f string, t float64) []string {
		return []string{"z3-new", fmt.Sprintf("-T:%d", int(t)+1), fmt.Sprintf("-t:%d", int(t*1000)), f}
	}},
	{"z3", func(f string, t float64) []string {
		return []string{"/usr/bin/z3", fmt.Sprintf("-T:%d", int(t)+1), fmt.Sprintf("-t:%d", int(t*1000)), f}
	}},
	{"cvc5", func(f string, t float64) []string {
		return []string{"cvc5", fmt.Sprintf("--tlimit=%d", int(t*1000)), f}
	}},
}

type solveOut struct {
	verdict string // unsat sat unknown timeout error
	solver  string
	out     string
	secs    float64
}

func runSolver(ctx context.Context, s solverSpec, file string, timeoutS float64) solveOut {
	t0 := time.Now()
	cctx, cancel := context.WithTimeout(ctx, time.Duration((timeoutS+2)*float64(time.Second)))
	defer cancel()
	a := s.args(file, timeoutS)
	cmd := exec.CommandContext(cctx, a[0], a[1:]...)
	var out bytes.Buffer
	cmd.Stdout = &out
	cmd.Stderr = &out
	_ = cmd.Run()
	o := out.String()
	first := strings.TrimSpace(strings.SplitN(o, "\n", 2)[0])
	v := "unknown"
	switch {
	case first == "unsat":
		v = "unsat"
	case first == "sat":
		v = "sat"
	case first == "unknown":
		v = "unknown"
	case strings.Contains(first, "timeout") || cctx.Err() != nil:
		v = "timeout"
	case strings.Contains(o, "error") || strings.Contains(o, "Error"):
		v = "error"
	}
	return solveOut{v, s.name, o, time.Since(t0).Seconds()}
}

// race runs the solvers in parallel; the first definitive answer wins.
func race(file string, timeoutS float64, which []solverSpec) (solveOut, []solveOut) {
	ctx, cancel := context.WithCancel(context.Background())
	defer cancel()
	ch := make(chan solveOut, len(which))
	for _, s := range which {
		go func(s solverSpec) { ch <- runSolver(ctx, s, file, timeoutS) }(s)
	}
	var all []solveOut
	var best solveOut
	for range which {
		r := <-ch
		all = append(all, r)
		if r.verdict == "unsat" || r.verdict == "sat" {
			best = r
			cancel()
			break
		}
	}
	if best.verdict == "" {
		// no definitive answer: report the most informative
		best = all[0]
		for _, r := range all {
			if r.verdict == "unknown" {
				best = r
			}
		}
		if best.verdict == "error" {
			for _, r := range all {
				if r.verdict != "error" {
					best = r
				}
			}
		}
	}
	return best, all
}

type SolveCfg struct {
	OutDir   string
	TimeoutS float64
	Par      int
	TwoAgree bool
	SweepRlimit int
}

func writeSMT(dir string, idx int, o *Obligation, wantModel bool) string {
	os.MkdirAll(dir, 0o755)
	f := filepath.Join(dir, fmt.Sprintf("%04d.smt2", idx))
	var txt string
	if o.Kind == "vacuity" {
		txt = o.VC.Emit(o.Hyps, "", false)
	} else {
		txt = o.VC.Emit(o.Hyps, o.Goal, wantModel)
	}
	txt = "; " + o.Name + "\n" + txt
	os.WriteFile(f, []byte(txt), 0o644)
	o.SMTSize = len(txt)
	return f
}

func solveAll(obls []*Obligation, cfg SolveCfg) {
	sem := make(chan struct{}, cfg.Par)
	var wg sync.WaitGroup
	for i, o := range obls {
		if o.Status != "" {
			continue
		}
		wg.Add(1)
		go func(i int, o *Obligation) {
			defer wg.Done()
			sem <- struct{}{}
			defer func() { <-sem }()
			solveOne(i, o, cfg)
		}(i, o)
	}
	wg.Wait()
}

func solveOne(i int, o *Obligation, cfg SolveCfg) {
	if o.Goal == "true" && o.Kind != "vacuity" {
		o.Status = "discharged"
		o.Solver = "trivial"
		return
	}
	f := writeSMT(cfg.OutDir, i, o, false)
	if os.Getenv("GOVC_KEEP_OUT") == "" {
		// the query text of a discharged obligation is regenerated on every run: keep only what failed
		defer func() {
			if o.Status == "discharged" {
				os.Remove(f)
				os.Remove(strings.TrimSuffix(f, ".smt2") + ".inst.smt2")
			}
		}()
	}
	if o.Kind == "vacuity" {
		r := runSolver(context.Background(), solvers[0], f, 3)
		o.Solver = r.solver
		o.TimeS = r.secs
		if r.verdict == "unsat" {
			o.Status = "refuted"
			o.Model = "hypotheses are inconsistent (vacuous contract)"
		} else {
			o.Status = "discharged"
			o.Note = "hypotheses-only query answered " + r.verdict + " (must not be unsat)"
		}
		return
	}
	if o.Sweep {
		// deterministic budget: one solver, resource-limited (not time-limited)
		rl := cfg.SweepRlimit
		if rl == 0 {
			rl = 16000000
		}
		sp := solverSpec{"z3-new", func(f string, t float64) []string {
			return []string{"z3-new", fmt.Sprintf("rlimit=%d", rl), fmt.Sprintf("-T:%d", int(t)), f}
		}}
		r := runSolver(context.Background(), sp, f, 30)
		o.TimeS = r.secs
		o.Solver = "z3-new(rlimit)"
		switch r.verdict {
		case "unsat":
			o.Status = "discharged"
		case "sat":
			o.Status = "refuted"
			o.Model = "sat (the replay step queries the model)"
		default:
			// second deterministic attempt: cvc5 under a resource limit
			c5 := solverSpec{"cvc5", func(f string, t float64) []string {
				return []string{"cvc5", fmt.Sprintf("--rlimit=%d", rl), fmt.Sprintf("--tlimit=%d", int(t*1000)), f}
			}}
			r2 := runSolver(context.Background(), c5, f, 30)
			o.TimeS += r2.secs
			switch r2.verdict {
			case "unsat":
				o.Status = "discharged"
				o.Solver = "cvc5(rlimit)"
			case "sat":
				o.Status = "refuted"
				o.Solver = "cvc5(rlimit)"
				o.Model = "sat (the replay step queries the model)"
			default:
				o.Status = "unknown"
				o.Model = r.verdict + "/" + r2.verdict + ": " + firstLines(r.out, 3)
			}
		}
		return
	}
	// stage 1: fast single solver
	r := runSolver(context.Background(), solvers[0], f, 2)
	total := r.secs
	triedInst := false
	if r.verdict != "unsat" && r.verdict != "sat" {
		// before the long race: the instance-only variant (quantified conjuncts of the path condition
		// dropped, their ground instances kept) is usually decided in seconds. Weaker hypotheses, so only
		// `unsat` counts; anything else falls through to the race on the full query.
		if wtxt := o.VC.EmitOpt(o.Hyps, o.Goal, false, true); len(wtxt) != o.SMTSize-len("; "+o.Name+"\n") {
			triedInst = true
			fw := filepath.Join(cfg.OutDir, fmt.Sprintf("%04d.inst.smt2", i))
			os.WriteFile(fw, []byte("; "+o.Name+" (instance-only variant)\n"+wtxt), 0o644)
			r3, _ := race(fw, 10, solvers)
			total += r3.secs
			if r3.verdict == "unsat" {
				o.TimeS = total
				o.Status = "discharged"
				o.Solver = r3.solver + "(instances)"
				return
			}
		}
		r2, _ := race(f, cfg.TimeoutS, solvers)
		total += r2.secs
		r = r2
	}
	o.TimeS = total
	o.Solver = r.solver
	switch r.verdict {
	case "unsat":
		o.Status = "discharged"
		if cfg.TwoAgree {
			// a second solver must agree
			agree := false
			for _, s := range solvers {
				if s.name == r.solver {
					continue
				}
				r2 := runSolver(context.Background(), s, f, cfg.TimeoutS)
				if r2.verdict == "unsat" {
					agree = true
					o.Solver += "+" + s.name
					break
				}
				if r2.verdict == "sat" {
					o.Status = "unknown"
					o.Model = "solvers disagree: " + r.solver + "=unsat " + s.name + "=sat"
					return
				}
			}
			if !agree {
				o.Note += " (second solver did not confirm within the timeout)"
			}
		}
	case "sat":
		o.Status = "refuted"
		// re-run with model production
		fm := writeSMT(cfg.OutDir+"/models", i, o, true)
		for _, s := range solvers {
			if s.name == r.solver {
				rm := runSolver(context.Background(), s, fm, cfg.TimeoutS)
				o.Model = rm.out
			}
		}
	default:
		// last attempt: the instance-only variant (quantified conjuncts of the path condition
		// dropped, their ground instances kept). Weaker hypotheses, so only unsat counts.
		if wtxt := o.VC.EmitOpt(o.Hyps, o.Goal, false, true); !triedInst && len(wtxt) != o.SMTSize-len("; "+o.Name+"\n") {
			fw := filepath.Join(cfg.OutDir, fmt.Sprintf("%04d.inst.smt2", i))
			os.WriteFile(fw, []byte("; "+o.Name+" (instance-only variant)\n"+wtxt), 0o644)
			r3, _ := race(fw, cfg.TimeoutS, solvers)
			o.TimeS += r3.secs
			if r3.verdict == "unsat" {
				o.Status = "discharged"
				o.Solver = r3.solver + "(instances)"
				return
			}
		}
		o.Status = "unknown"
		o.Model = r.verdict + ": " + firstLines(r.out, 5)
	}
}

func firstLines(s string, n int) string {
	ls := strings.Split(s, "\n")
	if len(ls) > n {
		ls = ls[:n]
	}
	return strings.Join(ls, " | ")
}
