package main

import (
	"fmt"
	"go/token"
	"go/types"
	"math/big"
	"strings"

	"golang.org/x/tools/go/ssa"
)

type big_Int = big.Int

func newBig(n int64) *big.Int { return big.NewInt(n) }

// ---------- modification sets ----------

type ModSet struct {
	all    bool
	heap   map[string]*Sort    // whole map havocked
	cells  map[int]bool
	points map[string][]string // map -> refs whose entry alone may change
	psort  map[string]*Sort
	cellPts map[string][]int   // map -> cells holding the only object written (loop scans)
	freshHeap map[string]*Sort // maps written only on objects allocated inside the scanned region
}

func NewModSet() *ModSet {
	return &ModSet{heap: map[string]*Sort{}, cells: map[int]bool{}, points: map[string][]string{}, psort: map[string]*Sort{}, cellPts: map[string][]int{}, freshHeap: map[string]*Sort{}}
}

// addPoint: only the entry of ref in the named maps may change.
func (ms *ModSet) addPoint(tmp *ModSet, ref string) {
	for n, s := range tmp.heap {
		ms.points[n] = append(ms.points[n], ref)
		ms.psort[n] = s
	}
}

func (x *Exec) addTypeStoreMods(ms *ModSet, kind AK, owner types.Type, field int, t types.Type) {
	switch kind {
	case AKField:
		if isStructT(t) {
			su := t.Underlying().(*types.Struct)
			for i := 0; i < su.NumFields(); i++ {
				x.addTypeStoreMods(ms, AKField, t, i, su.Field(i).Type())
			}
			return
		}
		if at, ok := t.Underlying().(*types.Array); ok {
			x.addTypeStoreMods(ms, AKElem, nil, 0, at.Elem())
			return
		}
		for k, s := range x.layout(t) {
			ms.heap[x.fieldArrName(owner, field, k)] = refArr(s)
		}
	case AKElem:
		for k, s := range x.layout(t) {
			n, as := x.elemArr(t, k, s)
			ms.heap[n] = as
		}
	case AKPtr:
		if isStructT(t) {
			su := t.Underlying().(*types.Struct)
			ext := false
			if n, ok := t.(*types.Named); ok && n.Obj().Pkg() != nil && !inMod(n.Obj().Pkg().Path(), modulePath) {
				ext = true // unexported fields of foreign structs are invisible to bluge code
			}
			for i := 0; i < su.NumFields(); i++ {
				if ext && !su.Field(i).Exported() {
					continue
				}
				x.addTypeStoreMods(ms, AKField, t, i, su.Field(i).Type())
			}
			return
		}
		if at, ok := t.Underlying().(*types.Array); ok {
			x.addTypeStoreMods(ms, AKElem, nil, 0, at.Elem())
			return
		}
		for k, s := range x.layout(t) {
			ms.heap[fmt.Sprintf("P$%s$%d", typeKey(t), k)] = refArr(s)
		}
	}
}

func (x *Exec) storeMods(fr *Frame, addr ssa.Value, ms *ModSet) {
	switch a := addr.(type) {
	case *ssa.Alloc:
		if fr != nil {
			if ad, ok := fr.addrs[a]; ok && ad.K == AKCell {
				ms.cells[ad.Cell] = true
				return
			}
		}
		if isCellAlloc(a) {
			return // cell created inside the scanned region
		}
		x.addTypeStoreMods(ms, AKPtr, nil, 0, a.Type().(*types.Pointer).Elem())
	case *ssa.FieldAddr:
		pt := a.X.Type().Underlying().(*types.Pointer).Elem()
		su := pt.Underlying().(*types.Struct)
		ft := su.Field(a.Field).Type()
		if al, ok := a.X.(*ssa.Alloc); ok && !isStructT(ft) && !isArrayT(ft) {
			bound := false
			if fr != nil {
				_, bound = fr.addrs[al]
			}
			if !bound {
				// the object is allocated inside the scanned region: objects that existed before keep this field
				tmp := NewModSet()
				x.addTypeStoreMods(tmp, AKField, pt, a.Field, ft)
				for n, s := range tmp.heap {
					ms.freshHeap[n] = s
				}
				return
			}
		}
		if c, ok := x.loadedCell(fr, a.X); ok && !isStructT(ft) && !isArrayT(ft) {
			tmp := NewModSet()
			x.addTypeStoreMods(tmp, AKField, pt, a.Field, ft)
			for n, s := range tmp.heap {
				ms.cellPts[n] = append(ms.cellPts[n], c)
				ms.psort[n] = s
			}
			return
		}
		x.addTypeStoreMods(ms, AKField, pt, a.Field, ft)
	case *ssa.IndexAddr:
		switch t := a.X.Type().Underlying().(type) {
		case *types.Slice:
			if c, ok := x.loadedCell(fr, a.X); ok {
				tmp := NewModSet()
				x.addTypeStoreMods(tmp, AKElem, nil, 0, t.Elem())
				for n, s := range tmp.heap {
					ms.cellPts[n] = append(ms.cellPts[n], c)
					ms.psort[n] = s
				}
				return
			}
			x.addTypeStoreMods(ms, AKElem, nil, 0, t.Elem())
		case *types.Pointer:
			x.addTypeStoreMods(ms, AKElem, nil, 0, t.Elem().Underlying().(*types.Array).Elem())
		}
	case *ssa.FreeVar:
		if fr != nil {
			if ad, ok := fr.freeVar[a]; ok && ad.K == AKCell {
				ms.cells[ad.Cell] = true
				return
			}
		}
		// closure scanned statically: any captured cell of the enclosing frame may change
		ms.all = ms.all || fr == nil
	default:
		if pt, ok := addr.Type().Underlying().(*types.Pointer); ok {
			x.addTypeStoreMods(ms, AKPtr, nil, 0, pt.Elem())
		}
	}
}

// loadedCell: v is a load of a local cell of the frame (`*t` with t a cell alloc).
func (x *Exec) loadedCell(fr *Frame, v ssa.Value) (int, bool) {
	if fr == nil {
		return 0, false
	}
	u, ok := v.(*ssa.UnOp)
	if !ok || u.Op != token.MUL {
		return 0, false
	}
	a, ok := u.X.(*ssa.Alloc)
	if !ok {
		return 0, false
	}
	ad, ok := fr.addrs[a]
	if !ok || ad.K != AKCell {
		return 0, false
	}
	return ad.Cell, true
}

func (x *Exec) instrMods(fr *Frame, in ssa.Instruction, ms *ModSet, depth int) {
	switch i := in.(type) {
	case *ssa.Store:
		x.storeMods(fr, i.Addr, ms)
	case *ssa.MapUpdate:
		mt := i.Map.Type().Underlying().(*types.Map)
		if dom, ds, vals, vs, ok := x.mapArrs(mt); ok {
			ms.heap[dom] = ds
			for k := range vals {
				ms.heap[vals[k]] = vs[k]
			}
		}
	case *ssa.Call:
		x.callMods(fr, i.Common(), ms, depth)
	case *ssa.Defer:
		x.callMods(fr, i.Common(), ms, depth)
	case *ssa.Next:
		if rng, ok := i.Iter.(*ssa.Range); ok && !i.IsString {
			if n, srt, ok := x.visitedName(rng); ok {
				ms.heap[n] = srt
			}
		}
	case *ssa.Go:
	case *ssa.Send, *ssa.Select:
		x.ghostMods(ms)
	case *ssa.UnOp:
		if i.Op == token.ARROW {
			x.ghostMods(ms)
		}
	}
}

func (x *Exec) ghostMods(ms *ModSet) {}

// modifiesToSet translates the modifies clauses of a contract. env (optional)
// gives the argument values, so that `p.f` / `elems(s)` / `elems(p.f)` become
// point updates; without env (loop scans) they widen to the whole map.
func (x *Exec) modifiesToSet(spec *FuncSpec, ms *ModSet, argTypes map[string]types.Type, env map[string]Val, st *State) {
	// a ghost variable that an effect clause (or an ensures of an assumed contract) defines is modified,
	// whether or not the modifies clause lists it: otherwise the clause would constrain the OLD value
	for _, cl := range spec.Effects {
		for _, tok := range tokRe.FindAllString(cl.Src, -1) {
			if g, ok := x.w.specs.Ghosts[tok]; ok {
				if gs, err := x.specSort(g.Type); err == nil {
					ms.heap["G$"+tok] = gs
				}
			}
		}
	}
	if len(spec.Modifies) == 0 && !spec.Pure && !spec.Ext && !spec.Iface {
		// bluge function under contract that does not state its frame: anything may change
		ms.all = true
		return
	}
	fieldOf := func(t types.Type, f string) (types.Type, int, types.Type) {
		p, ok := t.Underlying().(*types.Pointer)
		if !ok {
			return nil, -1, nil
		}
		su, ok := p.Elem().Underlying().(*types.Struct)
		if !ok {
			return nil, -1, nil
		}
		idx, _ := findField(su, f)
		if idx < 0 {
			return nil, -1, nil
		}
		return p.Elem(), idx, su.Field(idx).Type()
	}
	for _, m := range spec.Modifies {
		m = strings.TrimSpace(m)
		switch {
		case m == "*":
			ms.all = true
		case m == "":
		default:
			if g, ok := x.w.specs.Ghosts[m]; ok {
				s, err := x.specSort(g.Type)
				if err == nil {
					ms.heap["G$"+m] = s
				}
				continue
			}
			if strings.HasPrefix(m, "mapof(") && strings.HasSuffix(m, ")") {
				// mapof(p.f): the contents of the map held in field f (every map of that type is havocked)
				parts := strings.Split(strings.TrimSuffix(strings.TrimPrefix(m, "mapof("), ")"), ".")
				done := false
				if len(parts) == 2 {
					if t, ok := argTypes[parts[0]]; ok {
						if _, _, ft := fieldOf(t, parts[1]); ft != nil {
							if mt, ok := ft.Underlying().(*types.Map); ok {
								if dom, ds, vals, vs, ok := x.mapArrs(mt); ok {
									ms.heap[dom] = ds
									for k := range vals {
										ms.heap[vals[k]] = vs[k]
									}
									done = true
								}
							}
						}
					}
				}
				if !done {
					x.bindingFailure(fmt.Sprintf("modifies clause %q of %s does not resolve", m, spec.Key))
				}
				continue
			}
			if strings.Contains(m, "ptr(") {
				// ptr(T, e).f  /  elems(ptr(T, e).f): e is any contract expression over the parameters
				// (typically iref(h) for an interface-typed parameter)
				if x.modifiesPtrForm(spec, ms, m, env, st) {
					continue
				}
				x.bindingFailure(fmt.Sprintf("modifies clause %q of %s does not resolve", m, spec.Key))
				continue
			}
			if strings.HasPrefix(m, "elems(") {
				nm := strings.TrimSuffix(strings.TrimPrefix(m, "elems("), ")")
				parts := strings.Split(nm, ".")
				t, ok := argTypes[parts[0]]
				var v Val
				hasV := false
				if env != nil {
					v, hasV = env[parts[0]]
				}
				if ok && len(parts) == 2 {
					owner, idx, ft := fieldOf(t, parts[1])
					if owner != nil {
						if hasV && st != nil {
							v = x.loadAtQuiet(st, Addr{K: AKField, Ref: v.One(), ST: owner, Field: idx, T: ft})
						} else {
							hasV = false
						}
						t = ft
					} else {
						ok = false
					}
				}
				if ok {
					if sl, ok := t.Underlying().(*types.Slice); ok {
						tmp := NewModSet()
						x.addTypeStoreMods(tmp, AKElem, nil, 0, sl.Elem())
						if hasV {
							ms.addPoint(tmp, v.L[0])
						} else {
							for n, s := range tmp.heap {
								ms.heap[n] = s
							}
						}
						continue
					}
				}
				x.bindingFailure(fmt.Sprintf("modifies clause %q of %s does not resolve", m, spec.Key))
				continue
			}
			// p.f  or T.f
			parts := strings.Split(m, ".")
			if len(parts) == 2 {
				if t, ok := argTypes[parts[0]]; ok {
					owner, idx, ft := fieldOf(t, parts[1])
					if owner != nil {
						tmp := NewModSet()
						x.addTypeStoreMods(tmp, AKField, owner, idx, ft)
						if v, ok := env[parts[0]]; ok && env != nil && !isStructT(ft) && !isArrayT(ft) {
							ms.addPoint(tmp, v.One())
						} else {
							for n, s := range tmp.heap {
								ms.heap[n] = s
							}
						}
						continue
					}
				} else if st := x.w.lookupType(spec, parts[0]); st != nil {
					if su, ok := st.Underlying().(*types.Struct); ok {
						if idx, _ := findField(su, parts[1]); idx >= 0 {
							x.addTypeStoreMods(ms, AKField, st, idx, su.Field(idx).Type())
							continue
						}
					}
				}
			}
			x.bindingFailure(fmt.Sprintf("modifies clause %q of %s does not resolve", m, spec.Key))
		}
	}
}

func (x *Exec) modifiesPtrForm(spec *FuncSpec, ms *ModSet, m string, env map[string]Val, st *State) bool {
	isElems := false
	if strings.HasPrefix(m, "elems(") && strings.HasSuffix(m, ")") {
		isElems = true
		m = strings.TrimSuffix(strings.TrimPrefix(m, "elems("), ")")
	}
	dot := strings.LastIndex(m, ".")
	if !strings.HasPrefix(m, "ptr(") || dot < 0 || m[dot-1] != ')' {
		return false
	}
	fname := m[dot+1:]
	inner := m[len("ptr(") : dot-1]
	comma := strings.Index(inner, ",")
	if comma < 0 {
		return false
	}
	tn := strings.TrimSpace(inner[:comma])
	etxt := strings.TrimSpace(inner[comma+1:])
	T := x.w.lookupType(spec, tn)
	if T == nil {
		return false
	}
	su, ok := T.Underlying().(*types.Struct)
	if !ok {
		return false
	}
	idx, _ := findField(su, fname)
	if idx < 0 {
		return false
	}
	ft := su.Field(idx).Type()
	ref := ""
	if env != nil && st != nil {
		if e, err := ParseExpr(etxt); err == nil {
			c := &EvalCtx{x: x, names: env, st: st, old: st, oldNames: env}
			if v, err := c.eval(e, sortRef); err == nil && len(v.L) >= 1 {
				ref = v.L[len(v.L)-1]
				if len(v.L) == 1 {
					ref = v.L[0]
				}
			}
		}
	}
	if !isElems {
		tmp := NewModSet()
		x.addTypeStoreMods(tmp, AKField, T, idx, ft)
		if ref != "" && !isStructT(ft) && !isArrayT(ft) {
			ms.addPoint(tmp, ref)
		} else {
			for n, s := range tmp.heap {
				ms.heap[n] = s
			}
		}
		return true
	}
	sl, ok := ft.Underlying().(*types.Slice)
	if !ok {
		return false
	}
	tmp := NewModSet()
	x.addTypeStoreMods(tmp, AKElem, nil, 0, sl.Elem())
	if ref != "" {
		v := x.loadAtQuiet(st, Addr{K: AKField, Ref: ref, ST: T, Field: idx, T: ft})
		ms.addPoint(tmp, v.L[0])
	} else {
		for n, s := range tmp.heap {
			ms.heap[n] = s
		}
	}
	return true
}

func (x *Exec) callMods(fr *Frame, c *ssa.CallCommon, ms *ModSet, depth int) {
	if b, ok := c.Value.(*ssa.Builtin); ok {
		switch b.Name() {
		case "append", "copy":
			if sl, ok := c.Args[0].Type().Underlying().(*types.Slice); ok {
				x.addTypeStoreMods(ms, AKElem, nil, 0, sl.Elem())
			}
		case "delete":
			mt := c.Args[0].Type().Underlying().(*types.Map)
			if dom, ds, _, _, ok := x.mapArrs(mt); ok {
				ms.heap[dom] = ds
			}
		}
		return
	}
	callee, spec, _ := x.resolveCallee(fr, c)
	if spec != nil && !spec.Inline && !spec.Opaque {
		at := map[string]types.Type{}
		names := x.paramNames(spec, callee, c)
		args := x.callArgValues(c)
		for i, n := range names {
			if i < len(args) {
				at[n] = args[i].Type()
			}
		}
		x.modifiesToSet(spec, ms, at, nil, nil)
		return
	}
	if callee != nil && x.canInline(callee, depth) {
		for _, b := range callee.Blocks {
			for _, in := range b.Instrs {
				x.instrMods(nil, in, ms, depth+1)
			}
		}
		// stores through parameters are covered by the type-based sets
		if len(callee.FreeVars) > 0 && fr != nil {
			for _, a := range fr.addrs {
				if a.K == AKCell && x.cellCaptured[a.Cell] {
					ms.cells[a.Cell] = true
				}
			}
		}
		return
	}
	// closure value known?
	x.unknownCallMods(c, ms)
}

// unknownCallModsAt: like unknownCallMods, but with the argument values at hand only the
// objects the pointers actually denote are havocked (point updates), not whole maps.
func (x *Exec) unknownCallModsAt(c *ssa.CallCommon, ms *ModSet, args []Val) {
	vals := x.callArgValues(c)
	for i, a := range vals {
		for {
			if mi, ok := a.(*ssa.MakeInterface); ok {
				a = mi.X
				continue
			}
			if ci, ok := a.(*ssa.ChangeInterface); ok {
				a = ci.X
				continue
			}
			break
		}
		if _, isIface := a.Type().Underlying().(*types.Interface); isIface {
			x.assume1("objects behind interface-typed arguments of un-contracted calls are assumed unchanged by the call")
		}
		tmp := NewModSet()
		var ref string
		switch t := a.Type().Underlying().(type) {
		case *types.Slice:
			x.addTypeStoreMods(tmp, AKElem, nil, 0, t.Elem())
			if a == vals[i] && i < len(args) && len(args[i].L) == 4 {
				ref = args[i].L[0]
			}
		case *types.Pointer:
			x.addTypeStoreMods(tmp, AKPtr, nil, 0, t.Elem())
			if a == vals[i] && i < len(args) && len(args[i].L) == 1 {
				ref = args[i].L[0]
			}
		}
		if ref != "" {
			ms.addPoint(tmp, ref)
		} else {
			for n, s := range tmp.heap {
				ms.heap[n] = s
			}
		}
	}
}

func (x *Exec) unknownCallMods(c *ssa.CallCommon, ms *ModSet) {
	for _, a := range x.callArgValues(c) {
		// an interface built here from a pointer: the callee can write through it
		for {
			if mi, ok := a.(*ssa.MakeInterface); ok {
				a = mi.X
				continue
			}
			if ci, ok := a.(*ssa.ChangeInterface); ok {
				a = ci.X
				continue
			}
			break
		}
		if _, isIface := a.Type().Underlying().(*types.Interface); isIface {
			x.assume1("objects behind interface-typed arguments of un-contracted calls are assumed unchanged by the call")
		}
		switch t := a.Type().Underlying().(type) {
		case *types.Slice:
			x.addTypeStoreMods(ms, AKElem, nil, 0, t.Elem())
		case *types.Pointer:
			x.addTypeStoreMods(ms, AKPtr, nil, 0, t.Elem())
		}
	}
}

func (x *Exec) callArgValues(c *ssa.CallCommon) []ssa.Value {
	if c.IsInvoke() {
		return append([]ssa.Value{c.Value}, c.Args...)
	}
	return c.Args
}

// immutableArr: is the heap map that of a field declared immutable?
func (x *Exec) immutableArr(name string) bool {
	if !strings.HasPrefix(name, "H$") {
		return false
	}
	if x.immutNames == nil {
		x.immutNames = map[string]bool{}
		for k, ts := range x.w.specs.Types {
			i := strings.LastIndex(k, "/")
			short := k[i+1:]
			if strings.HasPrefix(k, modulePath+"/") {
				short = k[len(modulePath)+1:]
				short = strings.ReplaceAll(short, "/", ".")
				// typeKey uses the package NAME: last path element
				j := strings.LastIndex(k, "/")
				short = k[j+1:]
			}
			for _, f := range ts.Immutable {
				x.immutNames["H$"+sanitize(short)+"$"+f+"$"] = true
			}
		}
	}
	for pfx := range x.immutNames {
		if strings.HasPrefix(name, pfx) {
			return true
		}
	}
	return false
}

// havocArr: a fresh version of a heap map. Maps of immutable fields keep the entries of all
// objects that existed before (only objects allocated meanwhile may differ).
func (x *Exec) havocArr(st *State, n string, s *Sort, prefix string) {
	x.heapVar(n, s)
	old := x.heapGet(st, n, s)
	nv := x.vc.Declare(n+"@"+prefix, s)
	st.heap[n] = nv
	x.pendingAlloc = append(x.pendingAlloc, [2]string{nv, n})
	if x.rootSpec != nil && !x.rootSpec.Implicit && x.immutableArr(n) && s.K == SArr && s.Key.K == SRef {
		x.birth()
		q := fmt.Sprintf("q!r!%d", x.nextID())
		x.assumeIn(st, "(forall (("+q+" Int)) (! (=> (<= (birth "+q+") "+st.now+") (= (select "+nv+" "+q+") (select "+old+" "+q+"))) :pattern ((select "+nv+" "+q+"))))")
	}
}

// havoc replaces everything in ms by unconstrained values.
func (x *Exec) havoc(fr *Frame, st *State, ms *ModSet, prefix string) {
	for _, id := range sortedInts(ms.cells) {
		if v, ok := st.cells[id]; ok {
			var nv Val
			var f string
			if v.GT != nil {
				nv, f = x.freshVal(prefix, v.GT)
			} else {
				nv = scalar(v.S[0], x.vc.Declare(prefix, v.S[0]))
				f = rangeFact(v.S[0], nv.L[0])
			}
			st.cells[id] = nv
			x.assumeIn(st, and(f, x.refFacts(st, nv)))
		}
	}
	if ms.all {
		for _, n := range sortedKeys(x.heapSorts) {
			if strings.HasPrefix(n, "G$") {
				continue
			}
			x.havocArr(st, n, x.heapSorts[n], prefix)
		}
		x.havocAllSeen = true
	}
	for _, n := range sortedKeys(ms.heap) {
		s := ms.heap[n]
		x.havocArr(st, n, s, prefix)
	}
	for _, n := range sortedKeys(ms.freshHeap) {
		if _, whole := ms.heap[n]; whole || ms.all {
			continue
		}
		if _, pt := ms.cellPts[n]; pt {
			ms.heap[n] = ms.freshHeap[n]
			x.havocArr(st, n, ms.freshHeap[n], prefix)
			continue
		}
		s := ms.freshHeap[n]
		x.heapVar(n, s)
		old := x.heapGet(st, n, s)
		nv := x.vc.Declare(n+"@"+prefix+".fr", s)
		st.heap[n] = nv
		x.pendingAlloc = append(x.pendingAlloc, [2]string{nv, n})
		x.birth()
		q := fmt.Sprintf("q!r!%d", x.nextID())
		x.assumeIn(st, "(forall (("+q+" Int)) (! (=> (<= (birth "+q+") "+st.now+") (= (select "+nv+" "+q+") (select "+old+" "+q+"))) :pattern ((select "+nv+" "+q+"))))")
	}
	for _, n := range sortedKeys(ms.cellPts) {
		cs := ms.cellPts[n]
		if _, whole := ms.heap[n]; whole || ms.all {
			continue
		}
		for _, c := range cs {
			v, live := st.cells[c]
			if ms.cells[c] || !live || len(v.L) == 0 || v.S[0].K != SRef {
				// the variable holding the object changes in the region: any object may be written
				ms.heap[n] = ms.psort[n]
				break
			}
		}
		if _, whole := ms.heap[n]; whole {
			x.havocArr(st, n, ms.psort[n], prefix)
			continue
		}
		for _, c := range cs {
			ms.points[n] = append(ms.points[n], st.cells[c].L[0])
		}
	}
	for _, n := range sortedKeys(ms.points) {
		refs := ms.points[n]
		if _, whole := ms.heap[n]; whole || ms.all {
			continue
		}
		s := ms.psort[n]
		cur := x.heapGet(st, n, s)
		for _, r := range refs {
			cur = "(store " + cur + " " + r + " " + x.vc.Declare(n+"@"+prefix+".pt", s.Val) + ")"
		}
		x.heapSet(st, n, s, cur)
	}
	if x.holdClock {
		return
	}
	nn := x.vc.Declare("now", sortInt)
	x.assumeIn(st, "(>= "+nn+" "+st.now+")")
	st.now = nn
	// the havocked maps hold references to objects that exist at the new time
	for _, pa := range x.pendingAlloc {
		x.refsAllocatedAxiom(pa[0], x.heapSorts[pa[1]], nn)
	}
	x.pendingAlloc = nil
}

// ---------- callee resolution ----------

func funcKey(f *ssa.Function) string {
	if f.Pkg == nil && f.Signature.Recv() == nil && f.Parent() == nil {
		if f.Object() != nil && f.Object().Pkg() != nil {
			return f.Object().Pkg().Path() + "." + f.Name()
		}
		return f.Name()
	}
	if f.Parent() != nil {
		return funcKey(f.Parent()) + strings.TrimPrefix(f.Name(), f.Parent().Name())
	}
	pkg := ""
	if f.Pkg != nil {
		pkg = f.Pkg.Pkg.Path()
	} else if f.Object() != nil && f.Object().Pkg() != nil {
		pkg = f.Object().Pkg().Path()
	}
	if recv := f.Signature.Recv(); recv != nil {
		t := recv.Type()
		if p, ok := t.(*types.Pointer); ok {
			t = p.Elem()
		}
		if n, ok := t.(*types.Named); ok {
			return pkg + "." + n.Obj().Name() + "." + f.Name()
		}
	}
	return pkg + "." + f.Name()
}

func methodKey(m *types.Func) string {
	sig := m.Type().(*types.Signature)
	pkg := ""
	if m.Pkg() != nil {
		pkg = m.Pkg().Path()
	}
	if r := sig.Recv(); r != nil {
		t := r.Type()
		if p, ok := t.(*types.Pointer); ok {
			t = p.Elem()
		}
		if n, ok := t.(*types.Named); ok {
			if n.Obj().Pkg() != nil {
				pkg = n.Obj().Pkg().Path()
			}
			return pkg + "." + n.Obj().Name() + "." + m.Name()
		}
	}
	return pkg + "." + m.Name()
}

func (x *Exec) inModule(f *ssa.Function) bool {
	p := f.Pkg
	if p == nil && f.Parent() != nil {
		return x.inModule(f.Parent())
	}
	if p == nil {
		if f.Object() != nil && f.Object().Pkg() != nil {
			return inMod(f.Object().Pkg().Path(), x.w.modPath)
		}
		return false
	}
	return inMod(p.Pkg.Path(), x.w.modPath)
}

func (x *Exec) canInline(f *ssa.Function, depth int) bool {
	if f == nil || len(f.Blocks) == 0 || !x.inModule(f) {
		return false
	}
	if depth >= x.w.maxInline {
		return false
	}
	if len(f.Blocks) > 60 {
		return false
	}
	for fr := x.cur; fr != nil; fr = fr.caller {
		if fr.fn == f {
			return false
		}
	}
	if sp, ok := x.w.specs.Funcs[funcKey(f)]; ok && sp.Opaque {
		return false
	}
	return true
}

// resolveCallee finds the static callee (if any) and its contract (if any).
// specInScope: a contract marked `scoped` does not exist while a property it is not tagged with is
// checked (its function is inlined or treated as unknown like any un-contracted one), so that adding
// it cannot perturb the proofs of other properties. Unmarked contracts apply everywhere (most carry
// frames or assumptions that several properties rely on).
func (x *Exec) specInScope(sp *FuncSpec) bool {
	if sp == nil || sp.Ext || len(sp.Props) == 0 || x.propFilter == "" || !sp.Scoped {
		return true
	}
	return hasProp(sp.Props, x.propFilter)
}

func (x *Exec) resolveCallee(fr *Frame, c *ssa.CallCommon) (*ssa.Function, *FuncSpec, string) {
	f, sp, key := x.resolveCallee0(fr, c)
	if sp != nil && !x.specInScope(sp) {
		sp = nil
	}
	return f, sp, key
}

func (x *Exec) resolveCallee0(fr *Frame, c *ssa.CallCommon) (*ssa.Function, *FuncSpec, string) {
	if c.IsInvoke() {
		key := methodKey(c.Method)
		// known dynamic type?
		if fr != nil {
			if mi, ok := c.Value.(*ssa.MakeInterface); ok {
				if f := x.w.prog.LookupMethod(mi.X.Type(), c.Method.Pkg(), c.Method.Name()); f != nil {
					if sp, ok := x.w.specs.Funcs[funcKey(f)]; ok {
						return f, sp, funcKey(f)
					}
					if x.inModule(f) {
						return f, nil, funcKey(f)
					}
				}
			}
		}
		if sp, ok := x.w.specs.Funcs[key]; ok {
			return nil, sp, key
		}
		return nil, nil, key
	}
	if f := c.StaticCallee(); f != nil {
		key := funcKey(f)
		if sp, ok := x.w.specs.Funcs[key]; ok && x.specApplies(sp, f, c) {
			return f, sp, key
		}
		return f, nil, key
	}
	// call through a func-typed struct field
	if u, ok := c.Value.(*ssa.UnOp); ok && u.Op == token.MUL {
		if fa, ok := u.X.(*ssa.FieldAddr); ok {
			pt := fa.X.Type().Underlying().(*types.Pointer).Elem()
			if n, ok := pt.(*types.Named); ok && n.Obj().Pkg() != nil {
				su := pt.Underlying().(*types.Struct)
				fk := n.Obj().Pkg().Path() + "." + n.Obj().Name() + "." + su.Field(fa.Field).Name()
				if ck, ok := x.w.specs.FieldContracts[fk]; ok {
					if sp, ok := x.w.specs.Funcs[ck]; ok {
						return nil, sp, ck
					}
				}
				return nil, nil, fk
			}
		}
	}
	return nil, nil, "func-value " + c.Value.Name()
}

// specApplies: a contract may be written for one concrete type behind an interface-typed
// parameter (`applies h *collectStoreHeap`); at other call sites it does not exist.
func (x *Exec) specApplies(sp *FuncSpec, f *ssa.Function, c *ssa.CallCommon) bool {
	if len(sp.Applies) == 0 {
		return true
	}
	names := x.paramNames(sp, f, c)
	args := x.callArgValues(c)
	for _, ap := range sp.Applies {
		ok := false
		for i, n := range names {
			if n != ap[0] || i >= len(args) {
				continue
			}
			a := args[i]
			for {
				if mi, isMI := a.(*ssa.MakeInterface); isMI {
					a = mi.X
					continue
				}
				if ci, isCI := a.(*ssa.ChangeInterface); isCI {
					a = ci.X
					continue
				}
				break
			}
			ts := a.Type().String()
			want := strings.TrimPrefix(ap[1], "*")
			if strings.HasSuffix(ts, "."+want) || strings.HasSuffix(ts, "/"+want) || ts == ap[1] {
				ok = true
			}
		}
		if !ok {
			return false
		}
	}
	return true
}

func (x *Exec) paramNames(spec *FuncSpec, callee *ssa.Function, c *ssa.CallCommon) []string {
	if spec != nil && len(spec.Params) > 0 {
		if callee != nil && callee.Signature.Recv() != nil && len(spec.Params) == len(callee.Params)-1 {
			// header lists the parameters without the receiver: the receiver keeps its source name
			return append([]string{callee.Params[0].Name()}, spec.Params...)
		}
		return spec.Params
	}
	var names []string
	if callee != nil {
		for _, p := range callee.Params {
			names = append(names, p.Name())
		}
		return names
	}
	sig := c.Signature()
	if c.IsInvoke() {
		names = append(names, "recv")
	}
	for i := 0; i < sig.Params().Len(); i++ {
		n := sig.Params().At(i).Name()
		if n == "" || n == "_" {
			n = fmt.Sprintf("arg%d", i)
		}
		names = append(names, n)
	}
	return names
}

func resultNames(spec *FuncSpec, sig *types.Signature) []string {
	if spec != nil && len(spec.Results) > 0 {
		return spec.Results
	}
	var out []string
	for i := 0; i < sig.Results().Len(); i++ {
		n := sig.Results().At(i).Name()
		if n == "" || n == "_" {
			if sig.Results().Len() == 1 {
				n = "result"
			} else {
				n = fmt.Sprintf("result%d", i)
			}
		}
		out = append(out, n)
	}
	return out
}

// ---------- calls ----------

// isLocalName: the identifier named in an "unknown identifier" error is a local variable of the function.
func (x *Exec) isLocalName(fr *Frame, msg string) bool {
	i := strings.Index(msg, "unknown identifier")
	if i < 0 {
		return false
	}
	name := strings.Trim(strings.TrimSpace(msg[i+len("unknown identifier"):]), "\"':")
	for _, l := range fr.fn.Locals {
		if l.Comment == name {
			return true
		}
	}
	return false
}

// atCallOrdinary evaluates the at-call clauses of the function under verification that name
// the callee key. An asserted clause becomes an obligation and is then available as a
// hypothesis (assert-then-assume: sound because the assertion is itself discharged).
func (x *Exec) atCallOrdinary(fr *Frame, st *State, key string) {
	if !(fr.root && fr.spec != nil) {
		return
	}
	for _, ac := range fr.spec.AtCalls {
		if ac.Callee == "funcvalue" || ac.Callee == "close" || ac.Callee == "send" {
			continue
		}
		if strings.HasSuffix(key, ac.Callee) || strings.HasSuffix(key, "."+ac.Callee) {
			if ac.Assert != nil && x.clauseActive(*ac.Assert) {
				t, err := x.evalBool(fr, st, ac.Assert.E)
				if err != nil && strings.Contains(err.Error(), "unknown identifier") && x.isLocalName(fr, err.Error()) {
					// a local of the clause does not exist yet at this call: the clause does not apply
					// here (it has to apply at some call, checked after the body)
					if x.atCallSkipped == nil {
						x.atCallSkipped = map[string]bool{}
					}
					x.atCallSkipped[ac.Assert.Name()] = true
				} else if err != nil {
					x.bindingFailure(fmt.Sprintf("at call %s: %v", ac.Callee, err))
				} else {
					if x.exitHits == nil {
						x.exitHits = map[string]int{}
					}
					x.exitHits["at-call:"+ac.Assert.Name()]++
					x.obligeIn(st, "at-call "+ac.Callee, ac.Assert.Name(), t, "")
					x.assumeIn(st, t)
				}
			}
			if ac.Set != "" && x.clauseActive(*ac.SetE) {
				// ghost assignment: the ghost variable takes the value of the expression at this call
				if g, ok := x.w.specs.Ghosts[ac.Set]; !ok {
					x.bindingFailure(fmt.Sprintf("at call %s: set %s: not a ghost variable", ac.Callee, ac.Set))
				} else if gs, err := x.specSort(g.Type); err != nil {
					x.bindingFailure(fmt.Sprintf("at call %s: set %s: %v", ac.Callee, ac.Set, err))
				} else if v, err := x.evalExpr(fr, st, ac.SetE.E); err != nil || len(v.L) != 1 {
					x.bindingFailure(fmt.Sprintf("at call %s: set %s: %v", ac.Callee, ac.Set, err))
				} else {
					x.heapSet(st, "G$"+ac.Set, gs, v.One())
				}
			}
			if ac.Assume != nil && x.clauseActive(*ac.Assume) {
				if t, err := x.evalBool(fr, st, ac.Assume.E); err == nil {
					x.assumeIn(st, t)
					x.assume1("assumed at call " + ac.Callee + " in " + shortFn(fr.fn) + ": " + ac.Assume.Src)
				}
			}
		}
	}
}

func (x *Exec) execCall(fr *Frame, st *State, instr ssa.Instruction, c *ssa.CallCommon, res ssa.Value) {
	x.curPos = instr.Pos()
	setRes := func(v Val) {
		if res != nil {
			fr.env[res] = v
		}
	}
	if b, ok := c.Value.(*ssa.Builtin); ok {
		x.atCallOrdinary(fr, st, "builtin."+b.Name())
		setRes(x.execBuiltin(fr, st, instr, b, c))
		return
	}
	callee, spec, key := x.resolveCallee(fr, c)
	if callee == nil && spec == nil && !c.IsInvoke() && strings.HasPrefix(key, "func-value") {
		x.atCallClauses(fr, st, "funcvalue")
	}
	if fr.root && fr.spec != nil && len(fr.spec.AtCalls) > 0 {
		// the callee's parameter names denote the arguments inside at-call clauses
		x.atCallArgs = map[string]Val{}
		names := x.paramNames(spec, callee, c)
		skip := 0
		if c.IsInvoke() || c.Signature().Recv() != nil {
			skip = 1
		}
		for i, a := range x.callArgValues(c) {
			v := x.val(fr, a)
			if i < len(names) {
				x.atCallArgs[names[i]] = v
			}
			if i >= skip {
				// argK: the K-th explicit argument (for a callee parameter name shadowed by a local)
				x.atCallArgs[fmt.Sprintf("arg%d", i-skip)] = v
			}
		}
	}
	x.atCallOrdinary(fr, st, key)
	x.atCallArgs = nil
	if strings.HasSuffix(key, "/search.NewExplanation") && fr.root {
		x.checkExplanationMessage(fr, st, instr, c)
	}
	// argument values
	var args []Val
	var argAddrs []*Addr
	for _, a := range x.callArgValues(c) {
		if ad, ok := fr.addrs[a]; ok {
			cp := ad
			argAddrs = append(argAddrs, &cp)
		} else if fv, ok := a.(*ssa.FreeVar); ok {
			if ad, ok := fr.freeVar[fv]; ok {
				cp := ad
				argAddrs = append(argAddrs, &cp)
			} else {
				argAddrs = append(argAddrs, nil)
			}
		} else {
			argAddrs = append(argAddrs, nil)
		}
		args = append(args, x.val(fr, a))
	}
	if c.IsInvoke() {
		x.nilCheck(st, args[0].L[0], "invoke "+c.Method.Name())
	}
	if key == "sync.Once.Do" && len(args) == 2 {
		// Once.Do(f) on a Once that has not fired yet runs f (assumption listed)
		if cr, ok := x.closures[args[1].One()]; ok {
			x.assume1("sync.Once.Do runs its argument (the Once is assumed not to have fired before) in " + shortFn(fr.fn))
			x.inlineCall(fr, st, cr.mc.Fn.(*ssa.Function), nil, nil, cr)
			setRes(Val{})
			return
		}
	}
	// closures created in this activation
	if callee == nil && !c.IsInvoke() {
		fv := x.val(fr, c.Value)
		if cr, ok := x.closures[fv.One()]; ok {
			setRes(x.inlineCall(fr, st, cr.mc.Fn.(*ssa.Function), args, argAddrs, cr))
			return
		}
		if spec == nil {
			kind := "nilfunc" // call through a func-typed struct field (configuration hooks)
			if strings.HasPrefix(key, "func-value") {
				kind = "nilfuncval"
			}
			if x.chk(kind) {
				x.obligeIn(st, kind, x.srcText(instr), not(eq(fv.One(), "0")), "")
			}
		}
	}
	if callee != nil && callee.Parent() != nil && spec == nil {
		// direct call of a closure literal
		if mc, ok := c.Value.(*ssa.MakeClosure); ok {
			setRes(x.inlineCall(fr, st, callee, args, argAddrs, &closureRec{mc: mc, fr: fr}))
			return
		}
	}
	if spec != nil && !spec.Inline && !spec.Opaque {
		setRes(x.applyContract(fr, st, instr, callee, spec, c, args))
		return
	}
	if callee != nil && x.canInline(callee, fr.depth) {
		setRes(x.inlineCall(fr, st, callee, args, argAddrs, nil))
		return
	}
	// unknown call: arbitrary result, memory reachable from the arguments (depth 1) havocked
	ms := NewModSet()
	x.unknownCallModsAt(c, ms, args)
	for i, ad := range argAddrs {
		if ad != nil && ad.K == AKCell {
			ms.cells[ad.Cell] = true
		}
		_ = i
	}
	for id := range x.escaped {
		ms.cells[id] = true
	}
	var preOpaque *State
	if spec != nil && spec.Opaque && len(spec.Effects) > 0 {
		preOpaque = st.clone()
		// an opaque callee may still define ghost updates (`effect`): those ghosts change with the call
		for _, cl := range spec.Effects {
			for _, tok := range tokRe.FindAllString(cl.Src, -1) {
				if g, ok := x.w.specs.Ghosts[tok]; ok {
					if gs, err := x.specSort(g.Type); err == nil {
						ms.heap["G$"+tok] = gs
					}
				}
			}
		}
	}
	x.havoc(fr, st, ms, "call")
	if preOpaque != nil {
		ectx := &EvalCtx{x: x, names: map[string]Val{}, st: st, old: preOpaque, oldNames: map[string]Val{}}
		for _, e := range spec.Effects {
			if !x.clauseActive(e) {
				continue
			}
			if v, err := ectx.eval(e.E, sortBool); err == nil && len(v.L) == 1 {
				x.assumeIn(st, v.One())
			} else {
				x.bindingFailure(fmt.Sprintf("effect %q of opaque %s: %v", e.Src, spec.Key, err))
			}
		}
	}
	x.assume1("call to " + key + " treated as arbitrary (result unconstrained, writes only through its pointer/slice arguments)")
	sig := c.Signature()
	if res != nil {
		var rt types.Type = sig.Results()
		if sig.Results().Len() == 1 {
			rt = sig.Results().At(0).Type()
		}
		v, f := x.freshVal("ret."+sanitize(lastSeg(key)), rt)
		x.assumeIn(st, and(f, x.refFacts(st, v)))
		setRes(v)
	}
}

func lastSeg(k string) string {
	if i := strings.LastIndex(k, "/"); i >= 0 {
		return k[i+1:]
	}
	return k
}

func (x *Exec) applyContract(fr *Frame, st *State, instr ssa.Instruction, callee *ssa.Function, spec *FuncSpec, c *ssa.CallCommon, args []Val) Val {
	names := x.paramNames(spec, callee, c)
	env := map[string]Val{}
	at := map[string]types.Type{}
	for i, n := range names {
		if i < len(args) {
			env[n] = args[i]
			at[n] = args[i].GT
		}
	}
	if spec.Ext {
		x.trusted[spec.Key] = true
	} else if spec.Trusted {
		x.trusted[spec.Key+" (trusted: body not verified)"] = true
	} else if spec.Iface {
		x.trusted[spec.Key+" (interface contract: assumed of every implementation)"] = true
	}
	pre := st.clone()
	ctx := &EvalCtx{x: x, names: env, st: st, old: pre, oldNames: env}
	short := lastSeg(spec.Key)
	for _, r := range spec.Requires {
		if !x.clauseActive(r) {
			continue
		}
		v, err := ctx.eval(r.E, sortBool)
		if err != nil || len(v.L) != 1 {
			x.bindingFailure(fmt.Sprintf("requires %q of %s: %v", r.Src, spec.Key, err))
			continue
		}
		x.obligeIn(st, "pre "+short, r.Name(), v.One(), "")
		x.assumeIn(st, v.One())
	}
	ms := NewModSet()
	x.modifiesToSet(spec, ms, at, env, st)
	if !spec.Pure || len(ms.heap) > 0 || ms.all {
		// a `pure` callee that only updates ghost variables allocates nothing the caller can see:
		// the allocation clock stands still (one fewer unconstrained symbol per call)
		x.holdClock = spec.Pure && !ms.all
		x.havoc(fr, st, ms, "c")
		x.holdClock = false
	}
	sig := c.Signature()
	var rt types.Type = sig.Results()
	if sig.Results().Len() == 1 {
		rt = sig.Results().At(0).Type()
	}
	res, f := x.freshVal("ret."+sanitize(short), rt)
	x.assumeIn(st, and(f, x.refFacts(st, res)))
	post := map[string]Val{}
	for k, v := range env {
		post[k] = v
	}
	rn := resultNames(spec, sig)
	if sig.Results().Len() == 1 {
		post[rn[0]] = res
		post["result"] = res
	} else {
		for i, n := range rn {
			lo, hi := x.tupleRange(sig.Results(), i)
			post[n] = Val{GT: sig.Results().At(i).Type(), S: res.S[lo:hi], L: res.L[lo:hi]}
			post[fmt.Sprintf("result%d", i)] = post[n]
		}
	}
	if spec.Fresh && len(res.L) > 0 {
		x.birth()
		x.assumeIn(st, and("(> "+res.L[0]+" 0)", "(> (birth "+res.L[0]+") "+pre.now+")"))
	}
	pctx := &EvalCtx{x: x, names: post, st: st, old: pre, oldNames: env}
	for _, e := range append(append([]Clause{}, spec.Ensures...), spec.Effects...) {
		v, err := pctx.eval(e.E, sortBool)
		if err != nil || len(v.L) != 1 {
			x.bindingFailure(fmt.Sprintf("ensures %q of %s: %v", e.Src, spec.Key, err))
			continue
		}
		x.assumeIn(st, v.One())
	}
	if len(spec.Effects) > 0 && !spec.Ext {
		x.assume1("definitional ghost effect of " + spec.Key + " (meaning of the ghost state, not checked against a body)")
	}
	return res
}

func (x *Exec) clauseActive(c Clause) bool {
	if len(c.Props) == 0 || x.propFilter == "" {
		return true
	}
	return hasProp(c.Props, x.propFilter)
}

func (x *Exec) inlineCall(fr *Frame, st *State, callee *ssa.Function, args []Val, argAddrs []*Addr, clo *closureRec) Val {
	x.inlined[funcKey(callee)] = true
	nf := &Frame{fn: callee, env: map[ssa.Value]Val{}, addrs: map[ssa.Value]Addr{}, depth: fr.depth + 1, caller: fr,
		freeVar: map[*ssa.FreeVar]Addr{}, params: map[string]Val{}, entry: st.clone()}
	for i, p := range callee.Params {
		if i < len(args) {
			nf.env[p] = Val{GT: p.Type(), S: args[i].S, L: args[i].L}
			if argAddrs != nil && i < len(argAddrs) && argAddrs[i] != nil {
				nf.addrs[p] = *argAddrs[i]
			}
			nf.params[p.Name()] = nf.env[p]
		}
	}
	if clo != nil {
		for i, fv := range callee.FreeVars {
			b := clo.mc.Bindings[i]
			if a, ok := clo.fr.addrs[b]; ok {
				nf.freeVar[fv] = a
				if a.K == AKCell {
					x.cellCaptured[a.Cell] = true
				}
			} else if pfv, ok := b.(*ssa.FreeVar); ok {
				if a, ok := clo.fr.freeVar[pfv]; ok {
					nf.freeVar[fv] = a
				}
			} else {
				// captured by value (pointer-typed binding)
				pv := x.val(clo.fr, b)
				if pt, ok := b.Type().Underlying().(*types.Pointer); ok {
					nf.freeVar[fv] = x.pointerAddr(pv.One(), pt.Elem())
				}
			}
		}
	}
	savedDefers := st.defers
	st.defers = nil
	x.runBody(nf, st)
	var sts []*State
	for _, r := range nf.rets {
		sts = append(sts, r.st)
	}
	merged := x.mergeStates(sts)
	sig := callee.Signature
	var rt types.Type = sig.Results()
	if sig.Results().Len() == 1 {
		rt = sig.Results().At(0).Type()
	}
	if merged == nil {
		// callee never returns (panics on all paths)
		st.dead = true
		x.curState = st
		return x.zeroVal(rt)
	}
	// merge return values
	out := Val{GT: rt, S: x.layout(rt)}
	for l := range out.S {
		r := nf.rets[len(nf.rets)-1].val.L[l]
		for k := len(nf.rets) - 2; k >= 0; k-- {
			r = ite(nf.rets[k].st.pc, nf.rets[k].val.L[l], r)
		}
		out.L = append(out.L, x.vc.Define("ret", out.S[l], r))
	}
	merged.defers = savedDefers
	*st = *merged
	x.curState = st
	return out
}

// ---------- builtins ----------

func (x *Exec) execBuiltin(fr *Frame, st *State, instr ssa.Instruction, b *ssa.Builtin, c *ssa.CallCommon) Val {
	is := x.idxSort()
	z := x.zeroLeaf(is)
	var rt types.Type
	if v, ok := instr.(ssa.Value); ok {
		rt = v.Type()
	}
	switch b.Name() {
	case "len", "cap":
		a := x.val(fr, c.Args[0])
		switch t := c.Args[0].Type().Underlying().(type) {
		case *types.Slice:
			if b.Name() == "len" {
				return Val{GT: rt, S: []*Sort{is}, L: []string{a.L[2]}}
			}
			return Val{GT: rt, S: []*Sort{is}, L: []string{a.L[3]}}
		case *types.Basic:
			return Val{GT: rt, S: []*Sort{is}, L: []string{x.vc.Define("len", is, x.strLen(a.One()))}}
		case *types.Array:
			return Val{GT: rt, S: []*Sort{is}, L: []string{x.numLit(big.NewInt(t.Len()), is)}}
		case *types.Pointer:
			if at, ok := t.Elem().Underlying().(*types.Array); ok {
				return Val{GT: rt, S: []*Sort{is}, L: []string{x.numLit(big.NewInt(at.Len()), is)}}
			}
		case *types.Map:
			n := x.vc.Declare("maplen", is)
			x.assumeIn(st, x.cmp("<=", z, n, is))
			if dom, ds, _, _, ok := x.mapArrs(t); ok {
				// len == 0 iff domain empty (one direction is enough for safety reasoning)
				k := x.vc.Declare("witness", ds.Val.Key)
				x.assumeIn(st, implies(x.cmp(">", n, z, is), and(not(eq(a.One(), "0")), "(select (select "+x.heapGet(st, dom, ds)+" "+a.One()+") "+k+")")))
			}
			return Val{GT: rt, S: []*Sort{is}, L: []string{n}}
		case *types.Chan:
			n := x.vc.Declare("chanlen", is)
			x.assumeIn(st, x.cmp("<=", z, n, is))
			return Val{GT: rt, S: []*Sort{is}, L: []string{n}}
		}
	case "append":
		return x.execAppend(fr, st, instr, c)
	case "copy":
		return x.execCopy(fr, st, instr, c)
	case "delete":
		m := x.val(fr, c.Args[0])
		k := x.val(fr, c.Args[1])
		mt := c.Args[0].Type().Underlying().(*types.Map)
		if dom, ds, _, _, ok := x.mapArrs(mt); ok {
			d := x.heapGet(st, dom, ds)
			x.heapSet(st, dom, ds, ite(eq(m.One(), "0"), d, "(store "+d+" "+m.One()+" (store (select "+d+" "+m.One()+") "+k.One()+" false))"))
		}
		return Val{}
	case "panic":
		st.dead = true
		return Val{}
	case "print", "println":
		return Val{}
	case "close":
		x.execClose(fr, st, instr, c)
		return Val{}
	case "min", "max":
		a := x.val(fr, c.Args[0])
		r := a.One()
		for _, o := range c.Args[1:] {
			bv := x.val(fr, o).One()
			if b.Name() == "min" {
				r = ite(x.cmp("<", bv, r, a.S[0]), bv, r)
			} else {
				r = ite(x.cmp(">", bv, r, a.S[0]), bv, r)
			}
		}
		return Val{GT: rt, S: a.S, L: []string{x.vc.Define("mm", a.S[0], r)}}
	case "ssa:wrapnilchk":
		a := x.val(fr, c.Args[0])
		x.nilCheck(st, a.L[0], "method value on nil")
		return a
	case "ssa:deferstack":
		return Val{GT: rt, S: []*Sort{sortRef}, L: []string{"0"}}
	case "recover":
		x.unsupported("recover")
		return x.zeroVal(rt)
	}
	x.unsupported("builtin %s", b.Name())
	if rt != nil {
		v, f := x.freshVal("bi", rt)
		x.assumeIn(st, f)
		return v
	}
	return Val{}
}

// append(s, t...) : exact model of both the in-place and the reallocating case.
func (x *Exec) execAppend(fr *Frame, st *State, instr ssa.Instruction, c *ssa.CallCommon) Val {
	is := x.idxSort()
	s := x.val(fr, c.Args[0])
	sl := c.Args[0].Type().Underlying().(*types.Slice)
	el := sl.Elem()
	var tb, to, tl string
	var tStr string
	if bt, ok := c.Args[1].Type().Underlying().(*types.Basic); ok && bt.Info()&types.IsString != 0 {
		tStr = x.val(fr, c.Args[1]).One()
		tl = x.strLen(tStr)
	} else {
		t := x.val(fr, c.Args[1])
		tb, to, tl = t.L[0], t.L[1], t.L[2]
	}
	newLen := x.vc.Define("alen", is, x.add(s.L[2], tl, is))
	fits := x.vc.Define("fits", sortBool, x.cmp("<=", newLen, s.L[3], is))
	nb := x.vc.Declare("abase", sortRef)
	x.birth()
	nn := x.vc.Define("now", sortInt, "(+ "+st.now+" 1)")
	x.assumeIn(st, implies(not(fits), and("(> "+nb+" 0)", "(= (birth "+nb+") "+nn+")")))
	st.now = nn
	ncap := x.vc.Declare("acap", is)
	x.assumeIn(st, and(x.cmp("<=", newLen, ncap, is), x.typeCapBound(ncap)))
	rb := x.vc.Define("rb", sortRef, ite(fits, s.L[0], nb))
	ro := x.vc.Define("ro", is, ite(fits, s.L[1], x.zeroLeaf(is)))
	rc := x.vc.Define("rc", is, ite(fits, s.L[3], ncap))
	for k, es := range x.layout(el) {
		name, as := x.elemArr(el, k, es)
		arr := x.heapGet(st, name, as)
		// result backing array content: old content on [ro, ro+len), then t's content
		na := x.vc.Declare("aarr", as.Val)
		j := fmt.Sprintf("j!%d", x.nextID())
		js := is.SMT()
		oldSel := "(select (select " + arr + " " + s.L[0] + ") " + x.add(s.L[1], j, is) + ")"
		var newSel string
		if tStr != "" {
			idx := x.sub(j, s.L[2], is)
			if x.mode.BV {
				newSel = "((_ int2bv 8) (str.at " + tStr + " (bv2nat " + idx + ")))"
			} else {
				newSel = "(str.at " + tStr + " " + idx + ")"
			}
		} else {
			newSel = "(select (select " + arr + " " + tb + ") " + x.add(to, x.sub(j, s.L[2], is), is) + ")"
		}
		z := x.zeroLeaf(is)
		lhs := "(select " + na + " " + x.add(ro, j, is) + ")"
		ax := "(forall ((" + j + " " + js + ")) (! (and (=> (and " + x.cmp("<=", z, j, is) + " " + x.cmp("<", j, s.L[2], is) + ") (= " + lhs + " " + oldSel + ")) (=> (and " + x.cmp("<=", s.L[2], j, is) + " " + x.cmp("<", j, newLen, is) + ") (= " + lhs + " " + newSel + "))) :pattern (" + lhs + ")))"
		// in place: cells outside [off+len, off+newLen) unchanged
		i2 := fmt.Sprintf("i!%d", x.nextID())
		frame := "(forall ((" + i2 + " " + js + ")) (! (=> (and " + fits + " (or " + x.cmp("<", i2, x.add(s.L[1], s.L[2], is), is) + " " + x.cmp(">=", i2, x.add(s.L[1], newLen, is), is) + ")) (= (select " + na + " " + i2 + ") (select (select " + arr + " " + s.L[0] + ") " + i2 + "))) :pattern ((select " + na + " " + i2 + "))))"
		// single-element fast path keeps the VC quantifier-free
		if one, ok := x.singleAppend(c); ok && tStr == "" {
			ov := x.val(fr, one)
			base := "(select " + arr + " " + s.L[0] + ")"
			inplace := "(store " + base + " " + x.add(s.L[1], s.L[2], is) + " " + ov.L[k] + ")"
			x.assumeIn(st, implies(fits, eq(na, inplace)))
			_ = frame
			x.assumeIn(st, implies(not(fits), and(eq("(select "+na+" "+s.L[2]+")", ov.L[k]), ax)))
		} else {
			x.assumeIn(st, and(ax, frame))
		}
		x.heapSet(st, name, as, "(store "+arr+" "+rb+" "+na+")")
	}
	return Val{GT: c.Args[0].Type(), S: s.S, L: []string{rb, ro, newLen, rc}}
}

func (x *Exec) typeCapBound(c string) string {
	if x.mode.BV {
		return "(bvule " + c + " #x4000000000000000)"
	}
	return "(<= " + c + " 4611686018427387904)"
}

// singleAppend recognises append(s, v) (go/ssa: varargs array of length 1).
func (x *Exec) singleAppend(c *ssa.CallCommon) (ssa.Value, bool) {
	sl, ok := c.Args[1].(*ssa.Slice)
	if !ok {
		return nil, false
	}
	al, ok := sl.X.(*ssa.Alloc)
	if !ok || al.Comment != "varargs" {
		return nil, false
	}
	at, ok := al.Type().(*types.Pointer).Elem().Underlying().(*types.Array)
	if !ok || at.Len() != 1 {
		return nil, false
	}
	for _, r := range *al.Referrers() {
		if ia, ok := r.(*ssa.IndexAddr); ok {
			for _, r2 := range *ia.Referrers() {
				if s, ok := r2.(*ssa.Store); ok {
					return s.Val, true
				}
			}
		}
	}
	return nil, false
}

func (x *Exec) execCopy(fr *Frame, st *State, instr ssa.Instruction, c *ssa.CallCommon) Val {
	is := x.idxSort()
	d := x.val(fr, c.Args[0])
	el := c.Args[0].Type().Underlying().(*types.Slice).Elem()
	var sb, so, sl, sStr string
	if bt, ok := c.Args[1].Type().Underlying().(*types.Basic); ok && bt.Info()&types.IsString != 0 {
		sStr = x.val(fr, c.Args[1]).One()
		sl = x.strLen(sStr)
	} else {
		s := x.val(fr, c.Args[1])
		sb, so, sl = s.L[0], s.L[1], s.L[2]
	}
	n := x.vc.Define("ncopy", is, ite(x.cmp("<", d.L[2], sl, is), d.L[2], sl))
	z := x.zeroLeaf(is)
	for k, es := range x.layout(el) {
		name, as := x.elemArr(el, k, es)
		arr := x.heapGet(st, name, as)
		na := x.vc.Declare("carr", as.Val)
		j := fmt.Sprintf("j!%d", x.nextID())
		js := is.SMT()
		var src string
		if sStr != "" {
			if x.mode.BV {
				src = "((_ int2bv 8) (str.at " + sStr + " (bv2nat " + x.sub(j, d.L[1], is) + ")))"
			} else {
				src = "(str.at " + sStr + " " + x.sub(j, d.L[1], is) + ")"
			}
		} else {
			src = "(select (select " + arr + " " + sb + ") " + x.add(so, x.sub(j, d.L[1], is), is) + ")"
		}
		inr := and(x.cmp("<=", d.L[1], j, is), x.cmp("<", j, x.add(d.L[1], n, is), is))
		ax := "(forall ((" + j + " " + js + ")) (! (= (select " + na + " " + j + ") (ite " + inr + " " + src + " (select (select " + arr + " " + d.L[0] + ") " + j + "))) :pattern ((select " + na + " " + j + "))))"
		x.assumeIn(st, implies(x.cmp(">", n, z, is), ax))
		x.assumeIn(st, implies(x.cmp("<=", n, z, is), eq(na, "(select "+arr+" "+d.L[0]+")")))
		x.heapSet(st, name, as, "(store "+arr+" "+d.L[0]+" "+na+")")
	}
	var rt types.Type = types.Typ[types.Int]
	return Val{GT: rt, S: []*Sort{is}, L: []string{n}}
}

// ---------- postconditions of the function under verification ----------

func (x *Exec) checkEnsures(fr *Frame, st *State, out Val) {
	spec := fr.spec
	if spec == nil {
		return
	}
	if fr.root && x.speculating == 0 {
		x.returnPCs = append(x.returnPCs, st.pc)
	}
	names := map[string]Val{}
	for k, v := range fr.params {
		names[k] = v
	}
	sig := fr.fn.Signature
	rn := resultNames(spec, sig)
	if sig.Results().Len() == 1 {
		names[rn[0]] = out
		names["result"] = out
	} else {
		for i, n := range rn {
			lo, hi := x.tupleRange(sig.Results(), i)
			names[n] = Val{GT: sig.Results().At(i).Type(), S: out.S[lo:hi], L: out.L[lo:hi]}
			names[fmt.Sprintf("result%d", i)] = names[n]
		}
	}
	ctx := &EvalCtx{x: x, names: names, st: st, old: fr.entry, oldNames: fr.params}
	// exit clauses first: each is an obligation and then a lemma for what follows
	for _, e := range spec.Exits {
		if !x.clauseActive(e) {
			continue
		}
		c2 := x.ctxFor(fr, st)
		for k, v := range names {
			if _, isParam := fr.params[k]; isParam {
				if _, isLocal := c2.lookupLocal(k); isLocal {
					continue // parameters denote their current value here
				}
			}
			c2.names[k] = v // results denote the returned values
		}
		v, err := c2.eval(e.E, sortBool)
		if err != nil && strings.Contains(err.Error(), "unknown identifier") {
			// a local of the clause is not in scope at this return: the clause does not apply here,
			// but it has to apply at some return (checked after the body)
			continue
		}
		if err != nil || len(v.L) != 1 || v.S[0].K != SBool {
			x.bindingFailure(fmt.Sprintf("exit %q: %v", e.Src, err))
			continue
		}
		if x.exitHits == nil {
			x.exitHits = map[string]int{}
		}
		x.exitHits[e.Name()]++
		x.obligeIn(st, "exit", e.Name(), v.One(), "")
		x.assumeIn(st, v.One()) // assert-then-assume: later exit clauses and the ensures may use it
	}
	for _, e := range spec.Ensures {
		if !x.clauseActive(e) {
			continue
		}
		v, err := ctx.eval(e.E, sortBool)
		if err != nil || len(v.L) != 1 || v.S[0].K != SBool {
			x.bindingFailure(fmt.Sprintf("ensures %q: %v", e.Src, err))
			continue
		}
		x.obligeIn(st, "ensures", e.Name(), v.One(), "")
	}
	if spec.Lockset || x.lockset {
		x.checkLocksBalanced(fr, st)
	}
	x.checkFrame(fr, st)
}

// checkFrame: what a function with a stated frame (modifies / pure) leaves
// unchanged. For every heap map the body changed: entries of objects that
// existed at entry are unchanged, except the points / maps listed.
func (x *Exec) checkFrame(fr *Frame, st *State) {
	spec := fr.spec
	if len(spec.Modifies) == 0 && !spec.Pure {
		return
	}
	if spec.AssumeFrame {
		x.assume1("frame of " + spec.Key + " assumed, not checked: it modifies only what its modifies clause lists and objects it allocates")
		return
	}
	at := map[string]types.Type{}
	for k, v := range fr.params {
		if v.GT != nil {
			at[k] = v.GT
		}
	}
	ms := NewModSet()
	x.modifiesToSet(spec, ms, at, fr.params, fr.entry)
	if ms.all {
		return
	}
	x.birth()
	for _, n := range sortedKeys(st.heap) {
		cur := st.heap[n]
		old := x.heapGet(fr.entry, n, x.heapSorts[n])
		if cur == old {
			continue
		}
		if _, whole := ms.heap[n]; whole {
			continue
		}
		s := x.heapSorts[n]
		if s.K != SArr {
			x.obligeIn(st, "frame", n+" unchanged", eq(cur, old), "")
			continue
		}
		qn := fmt.Sprintf("q!r!%d", x.nextID())
		var exc []string
		for _, r := range ms.points[n] {
			exc = append(exc, not(eq(qn, r)))
		}
		var guard string
		if s.Key.K == SRef {
			guard = and(append(exc, "(> "+qn+" 0)", "(<= (birth "+qn+") "+x.entryNow+")")...)
		} else {
			guard = and(exc...)
		}
		goal := "(forall ((" + qn + " " + s.Key.SMT() + ")) " + implies(guard, eq("(select "+cur+" "+qn+")", "(select "+old+" "+qn+")")) + ")"
		x.obligeIn(st, "frame", strings.TrimPrefix(n, "H$")+" of pre-existing objects unchanged", goal, "")
	}
}

// ---------- channels / select: events with optional contracts ----------

func (x *Exec) chanSpec(kind string) *FuncSpec {
	return x.w.specs.Funcs["chan."+kind]
}

func (x *Exec) applyEventSpec(fr *Frame, st *State, sp *FuncSpec, names map[string]Val, what string) {
	if sp == nil {
		return
	}
	pre := st.clone()
	ctx := &EvalCtx{x: x, names: names, st: st, old: pre, oldNames: names, fr: fr}
	for _, r := range sp.Requires {
		if !x.clauseActive(r) {
			continue
		}
		v, err := ctx.eval(r.E, sortBool)
		if err != nil {
			x.bindingFailure(fmt.Sprintf("requires of %s: %v", sp.Key, err))
			continue
		}
		x.obligeIn(st, "pre "+sp.Key, r.Name()+" "+what, v.One(), "")
		x.assumeIn(st, v.One())
	}
	ms := NewModSet()
	x.modifiesToSet(sp, ms, nil, nil, nil)
	if len(ms.heap) > 0 {
		x.havoc(fr, st, ms, "ev")
	}
	pctx := &EvalCtx{x: x, names: names, st: st, old: pre, oldNames: names, fr: fr}
	for _, e := range sp.Ensures {
		if v, err := pctx.eval(e.E, sortBool); err == nil {
			x.assumeIn(st, v.One())
		}
	}
}

// atCallClauses: at-call clauses for events that are not ordinary calls (close, send, call of a func value).
func (x *Exec) atCallClauses(fr *Frame, st *State, what string) {
	if !fr.root || fr.spec == nil {
		return
	}
	for _, ac := range fr.spec.AtCalls {
		if ac.Callee != what {
			continue
		}
		if ac.Assert != nil {
			t, err := x.evalBool(fr, st, ac.Assert.E)
			if err != nil {
				x.bindingFailure(fmt.Sprintf("at call %s: %v", what, err))
			} else {
				x.obligeIn(st, "at-call "+what, ac.Assert.Name(), t, "")
			}
		}
		if ac.Assume != nil {
			if t, err := x.evalBool(fr, st, ac.Assume.E); err == nil {
				x.assumeIn(st, t)
				x.assume1("assumed at " + what + " in " + shortFn(fr.fn) + ": " + ac.Assume.Src)
			}
		}
	}
}

func (x *Exec) execSend(fr *Frame, st *State, i *ssa.Send) {
	x.curPos = i.Pos()
	x.atCallClauses(fr, st, "send")
	ch := x.val(fr, i.Chan)
	v := x.val(fr, i.X)
	names := map[string]Val{"ch": ch}
	if len(v.L) > 0 {
		names["v"] = v
	}
	x.applyEventSpec(fr, st, x.chanSpec("send"), names, x.srcText(i))
}

func (x *Exec) execClose(fr *Frame, st *State, instr ssa.Instruction, c *ssa.CallCommon) {
	x.curPos = instr.Pos()
	x.atCallClauses(fr, st, "close")
	ch := x.val(fr, c.Args[0])
	x.applyEventSpec(fr, st, x.chanSpec("close"), map[string]Val{"ch": ch}, x.srcText(instr))
}

func (x *Exec) execRecv(fr *Frame, st *State, i *ssa.UnOp) {
	ch := x.val(fr, i.X)
	x.curPos = i.Pos()
	et := i.X.Type().Underlying().(*types.Chan).Elem()
	v, f := x.freshVal("recv", et)
	x.assumeIn(st, and(f, x.refFacts(st, v)))
	names := map[string]Val{"ch": ch}
	if len(v.L) > 0 {
		names["v"] = v
	}
	sp := x.chanSpec("recv")
	if t, ok := x.w.specs.Funcs["chan.recv."+typeKey(et)]; ok {
		sp = t
	}
	x.applyEventSpec(fr, st, sp, names, x.srcText(i))
	if i.CommaOk {
		ok := x.vc.Declare("recvok", sortBool)
		out := Val{GT: i.Type(), S: append(append([]*Sort{}, v.S...), sortBool), L: append(append([]string{}, v.L...), ok)}
		fr.env[i] = out
		return
	}
	fr.env[i] = Val{GT: i.Type(), S: v.S, L: v.L}
}

func (x *Exec) execSelect(fr *Frame, st *State, i *ssa.Select) {
	// result tuple: (index int, recvOk bool, r_0 T_0, ... r_n-1 T_n-1)
	is := x.idxSort()
	idx := x.vc.Declare("sel", is)
	n := int64(len(i.States))
	lo := x.zeroLeaf(is)
	if !i.Blocking {
		lo = x.numLit(big.NewInt(-1), is)
	}
	x.assumeIn(st, and(x.cmp("<=", lo, idx, is), x.cmp("<", idx, x.numLit(big.NewInt(n), is), is)))
	out := Val{GT: i.Type(), S: []*Sort{is, sortBool}, L: []string{idx, x.vc.Declare("selok", sortBool)}}
	for k, s := range i.States {
		if s.Dir == types.RecvOnly {
			et := s.Chan.Type().Underlying().(*types.Chan).Elem()
			v, f := x.freshVal("selrecv", et)
			x.assumeIn(st, and(f, x.refFacts(st, v)))
			out.S = append(out.S, v.S...)
			out.L = append(out.L, v.L...)
		} else {
			// a send that is chosen: event contract under the condition idx == k
			_ = k
		}
	}
	x.assume1("select modelled as nondeterministic choice (" + shortFn(fr.fn) + ")")
	fr.env[i] = out
}

// ---------- lockset (guarded_by) ----------

func (x *Exec) heldArr(st *State, write bool) (string, *Sort) {
	s := &Sort{K: SArr, Key: sortRef, Val: sortBool}
	n := "G$heldR"
	if write {
		n = "G$heldW"
	}
	return x.heapGet(st, n, s), s
}

func (x *Exec) checkGuarded(fr *Frame, st *State, a Addr, write bool, in ssa.Instruction) {
	if !x.lockset || a.K != AKField {
		return
	}
	n, ok := a.ST.(*types.Named)
	if !ok || n.Obj().Pkg() == nil {
		return
	}
	ts, ok := x.w.specs.Types[n.Obj().Pkg().Path()+"."+n.Obj().Name()]
	if !ok {
		return
	}
	su := a.ST.Underlying().(*types.Struct)
	fname := su.Field(a.Field).Name()
	for lock, fields := range ts.GuardedBy {
		for _, f := range fields {
			if f != fname {
				continue
			}
			li, _ := findField(su, lock)
			if li < 0 {
				x.bindingFailure(fmt.Sprintf("guarded_by(%s): no such field in %s", lock, n.Obj().Name()))
				continue
			}
			la := x.subAddr(a.ST, li, a.Ref)
			hw, _ := x.heldArr(st, true)
			hr, _ := x.heldArr(st, false)
			goal := "(select " + hw + " " + la + ")"
			if !write {
				goal = or(goal, "(select "+hr+" "+la+")")
			}
			// objects created by this activation and not yet published are exempt
			x.birth()
			goal = or(goal, "(> (birth "+a.Ref+") "+x.entryNow+")")
			kind := "guarded_by(" + lock + ")"
			rw := "read"
			if write {
				rw = "write"
			}
			x.obligeIn(st, kind, rw+" "+n.Obj().Name()+"."+fname+" "+x.srcText(in), goal, "")
		}
	}
}

func (x *Exec) checkLocksBalanced(fr *Frame, st *State) {
	for _, w := range []bool{true, false} {
		cur, _ := x.heldArr(st, w)
		old, _ := x.heldArr(fr.entry, w)
		nm := "heldR"
		if w {
			nm = "heldW"
		}
		x.obligeIn(st, "lockset", "locks balanced at return ("+nm+")", eq(cur, old), "")
	}
}

func inMod(pkg, mod string) bool { return pkg == mod || strings.HasPrefix(pkg, mod+"/") }

// checkImmutable: a store to a field declared immutable must hit an object created by the
// current activation (still private to it).
func (x *Exec) checkImmutable(fr *Frame, st *State, a Addr, in ssa.Instruction) {
	if x.rootSpec == nil || !x.rootSpec.ImmutChk || a.K != AKField {
		return
	}
	n, ok := a.ST.(*types.Named)
	if !ok || n.Obj().Pkg() == nil {
		return
	}
	ts, ok := x.w.specs.Types[n.Obj().Pkg().Path()+"."+n.Obj().Name()]
	if !ok {
		return
	}
	fname := a.ST.Underlying().(*types.Struct).Field(a.Field).Name()
	for _, f := range ts.Immutable {
		if f == fname {
			x.birth()
			goal := "(> (birth " + a.Ref + ") " + x.entryNow + ")"
			if x.allocHere[a.Ref] {
				goal = "true" // the target is syntactically an allocation of this activation
			}
			root := fr
			for root.caller != nil {
				root = root.caller
			}
			for _, p := range x.rootSpec.UnderConstruction {
				if v, ok := root.params[p]; ok && len(v.L) == 1 {
					goal = or(goal, eq(a.Ref, v.L[0]))
				}
			}
			x.obligeIn(st, "immutable", "store to "+n.Obj().Name()+"."+fname+" only on an object created here: "+x.srcText(in), goal, "")
		}
	}
}
