package main

// Memory model (Boogie style). Local, non-escaping scalar-ish variables are
// "cells" of the symbolic state. Everything else lives in heap maps:
//   H$<struct>$<field>$<k> : Array Ref leafsort      struct fields, one per leaf
//   E$<elem>$<k>           : Array Ref (Array Idx leafsort)   slice/array elements, keyed by base
//   P$<type>$<k>           : Array Ref leafsort      pointees of pointers to non-struct values
//   MD$<K>$<V> / MV$<K>$<V>$<k> : map domain / values, keyed by map ref
//   G$<name>               : ghost variable
// Allocation freshness uses birth stamps: birth(ref) <= now for every ref that
// exists; a new object gets birth = now+1.

import (
	"fmt"
	"go/types"
	"strings"
)

type AK int

const (
	AKCell  AK = iota // local cell
	AKObj             // pointer to a struct object (ref)
	AKField           // address of field Field of struct object Ref
	AKElem            // address of element Idx (absolute) of backing array Base
	AKPtr             // pointer to a non-struct value, via P$ arrays
	AKArr             // pointer to an array object (ref = base of element heap)
)

type Addr struct {
	K     AK
	Cell  int
	Lo, Hi int // AKCell: leaf range inside the cell's value (Hi == 0: the whole value)
	Ref   string
	ST    types.Type // struct type owning the field (named or struct)
	Field int
	Idx   string
	T     types.Type // pointee type
}

func typeKey(t types.Type) string {
	s := types.TypeString(t, func(p *types.Package) string { return p.Name() })
	s = strings.ReplaceAll(s, "github.com/blugelabs/bluge/", "")
	if len(s) > 60 {
		s = fmt.Sprintf("%s_%08x", s[:40], fnv32(s))
	}
	return sanitize(s)
}

func fnv32(s string) uint32 {
	h := uint32(2166136261)
	for i := 0; i < len(s); i++ {
		h ^= uint32(s[i])
		h *= 16777619
	}
	return h
}

func (x *Exec) heapVar(name string, s *Sort) string {
	if _, ok := x.heapSorts[name]; !ok {
		x.heapSorts[name] = s
	}
	return name
}

// heapGet returns the current term of a heap array in state st, declaring the
// function-entry version on first use.
func (x *Exec) heapGet(st *State, name string, s *Sort) string {
	x.heapVar(name, s)
	if t, ok := st.heap[name]; ok {
		return t
	}
	// first touch anywhere: the entry version is a declared constant shared by all states
	e, ok := x.heapEntry[name]
	if !ok {
		e = x.vc.Declare(name+"@0", s)
		x.heapEntry[name] = e
		x.refsAllocatedAxiom(e, s, x.entryNow)
	}
	return e
}

// refsAllocatedAxiom: every reference stored in a heap map denotes an object that exists
// (birth <= now): the well-formedness of Go heaps that makes fresh objects distinct from
// anything reachable. Stated once per declared map version, instantiated by E-matching.
func (x *Exec) refsAllocatedAxiom(arr string, s *Sort, now string) {
	if s.K != SArr || now == "" || x.rootSpec == nil || !x.rootSpec.HeapWF {
		return
	}
	x.birth()
	switch {
	case s.Val.K == SRef:
		guard := "true"
		if s.Key.K == SRef {
			guard = "(<= (birth r) " + now + ")"
		}
		x.vc.AddAxiom("alloc."+arr, "(assert (forall ((r "+s.Key.SMT()+")) (! (=> "+guard+" (<= (birth (select "+arr+" r)) "+now+")) :pattern ((select "+arr+" r)))))", arr)
	case s.Val.K == SArr && s.Val.Val.K == SRef:
		x.vc.AddAxiom("alloc."+arr, "(assert (forall ((r "+s.Key.SMT()+") (i "+s.Val.Key.SMT()+")) (! (=> (<= (birth r) "+now+") (<= (birth (select (select "+arr+" r) i)) "+now+")) :pattern ((select (select "+arr+" r) i)))))", arr)
	}
}

func (x *Exec) heapSet(st *State, name string, s *Sort, term string) {
	x.heapVar(name, s)
	st.heap[name] = x.vc.Define(name, s, term)
}

func refArr(val *Sort) *Sort { return &Sort{K: SArr, Key: sortRef, Val: val} }

func (x *Exec) fieldArrName(st types.Type, field int, k int) string {
	su := st.Underlying().(*types.Struct)
	return fmt.Sprintf("H$%s$%s$%d", typeKey(st), su.Field(field).Name(), k)
}

func isStructT(t types.Type) bool { _, ok := t.Underlying().(*types.Struct); return ok }
func isArrayT(t types.Type) bool  { _, ok := t.Underlying().(*types.Array); return ok }

func (x *Exec) birth() string {
	x.vc.DeclareRaw("birth", "(declare-fun birth (Int) Int)")
	return "birth"
}

// newRef allocates a fresh non-nil reference.
func (x *Exec) newRef(st *State, prefix string) string {
	r := x.vc.Declare(prefix, sortRef)
	if x.allocHere == nil {
		x.allocHere = map[string]bool{}
	}
	x.allocHere[r] = true // a symbol that denotes an object allocated by this activation
	x.birth()
	nn := x.vc.Define("now", sortInt, "(+ "+st.now+" 1)")
	x.assumeIn(st, and("(> "+r+" 0)", "(= (birth "+r+") "+nn+")"))
	st.now = nn
	return r
}

// knownRef: facts about a reference read from memory / received as input.
func (x *Exec) refFact(st *State, r string) string {
	x.birth()
	return and("(>= "+r+" 0)", "(<= (birth "+r+") "+st.now+")")
}

// subAddr: address of an embedded (by-value) field of an object. All such addresses are
// built from one injective pairing function, so that addresses of different fields (of the
// same or of different types) never alias, and an embedded address determines its owner.
func (x *Exec) subAddr(owner types.Type, field int, ref string) string {
	su := owner.Underlying().(*types.Struct)
	key := fmt.Sprintf("%s.%s", typeKey(owner), su.Field(field).Name())
	id, ok := x.subAddrIDs[key]
	if !ok {
		id = len(x.subAddrIDs) + 1
		x.subAddrIDs[key] = id
	}
	x.vc.DeclareRaw("subaddr", "(declare-fun subaddr (Int Int) Int)")
	x.vc.DeclareRaw("subaddr.fld", "(declare-fun subaddr.fld (Int) Int)")
	x.vc.DeclareRaw("subaddr.own", "(declare-fun subaddr.own (Int) Int)")
	x.birth()
	x.vc.AddAxiom("subaddr.inj", "(assert (forall ((k Int) (r Int)) (! (and (= (subaddr.fld (subaddr k r)) k) (= (subaddr.own (subaddr k r)) r) (=> (> r 0) (> (subaddr k r) 0)) (= (birth (subaddr k r)) (birth r))) :pattern ((subaddr k r)))))", "subaddr")
	return fmt.Sprintf("(subaddr %d %s)", id, ref)
}

// initObject zero-initialises a fresh struct object.
func (x *Exec) initObject(st *State, t types.Type, ref string) {
	su, ok := t.Underlying().(*types.Struct)
	if !ok {
		return
	}
	for i := 0; i < su.NumFields(); i++ {
		ft := su.Field(i).Type()
		x.storeAt(st, Addr{K: AKField, Ref: ref, ST: t, Field: i, T: ft}, x.zeroVal(ft))
	}
}

func (x *Exec) elemArr(et types.Type, k int, s *Sort) (string, *Sort) {
	name := fmt.Sprintf("E$%s$%d", typeKey(et), k)
	return name, refArr(&Sort{K: SArr, Key: x.idxSort(), Val: s})
}

// loadAt reads the value stored at an address.
func (x *Exec) loadAt(st *State, a Addr) Val {
	switch a.K {
	case AKCell:
		v, ok := st.cells[a.Cell]
		if !ok {
			x.unsupported("load of dead cell")
			v, _ = x.freshVal("dead", a.T)
			return v
		}
		if a.Hi > 0 {
			return Val{GT: a.T, S: v.S[a.Lo:a.Hi], L: v.L[a.Lo:a.Hi]}
		}
		return v
	case AKObj:
		// load of a whole struct through a pointer
		su := a.T.Underlying().(*types.Struct)
		out := Val{GT: a.T}
		for i := 0; i < su.NumFields(); i++ {
			fv := x.loadAt(st, Addr{K: AKField, Ref: a.Ref, ST: a.T, Field: i, T: su.Field(i).Type()})
			out.S = append(out.S, fv.S...)
			out.L = append(out.L, fv.L...)
		}
		return out
	case AKField:
		ft := a.T
		if isStructT(ft) {
			return x.loadAt(st, Addr{K: AKObj, Ref: x.subAddr(a.ST, a.Field, a.Ref), T: ft})
		}
		if isArrayT(ft) {
			return x.loadAt(st, Addr{K: AKArr, Ref: x.subAddr(a.ST, a.Field, a.Ref), T: ft})
		}
		ss := x.layout(ft)
		out := Val{GT: ft, S: ss}
		var facts []string
		for k, s := range ss {
			fname := x.fieldArrName(a.ST, a.Field, k)
			arr := x.heapGet(st, fname, refArr(s))
			t := x.vc.Define("ld", s, "(select "+arr+" "+a.Ref+")")
			out.L = append(out.L, t)
			if s.K == SRef {
				facts = append(facts, x.entryHeapFact(fname, arr, a.Ref, t))
			}
		}
		facts = append(facts, x.typeFacts(out), x.refFacts(st, out))
		x.assumeIn(st, and(facts...))
		return out
	case AKElem:
		ss := x.layout(a.T)
		out := Val{GT: a.T, S: ss}
		if isStructT(a.T) {
			// elements that are structs by value: each leaf in its own element heap
		}
		var efacts []string
		for k, s := range ss {
			name, as := x.elemArr(a.T, k, s)
			arr := x.heapGet(st, name, as)
			t := x.vc.Define("ld", s, "(select (select "+arr+" "+a.Ref+") "+a.Idx+")")
			out.L = append(out.L, t)
			if s.K == SRef {
				efacts = append(efacts, x.entryHeapFact(name, arr, a.Ref, t))
			}
		}
		x.assumeIn(st, and(append(efacts, x.typeFacts(out), x.refFacts(st, out))...))
		return out
	case AKPtr:
		ss := x.layout(a.T)
		out := Val{GT: a.T, S: ss}
		for k, s := range ss {
			arr := x.heapGet(st, fmt.Sprintf("P$%s$%d", typeKey(a.T), k), refArr(s))
			out.L = append(out.L, x.vc.Define("ld", s, "(select "+arr+" "+a.Ref+")"))
		}
		x.assumeIn(st, and(x.typeFacts(out), x.refFacts(st, out)))
		return out
	case AKArr:
		at := a.T.Underlying().(*types.Array)
		ss := x.layout(at.Elem())
		if len(ss) != 1 {
			v, f := x.freshVal("arrval", a.T)
			x.assumeIn(st, f)
			return v
		}
		name, as := x.elemArr(at.Elem(), 0, ss[0])
		arr := x.heapGet(st, name, as)
		ls := x.layout(a.T)
		return Val{GT: a.T, S: ls, L: []string{x.vc.Define("ld", ls[0], "(select "+arr+" "+a.Ref+")")}}
	}
	panic("bad addr")
}

// entryHeapFact: a reference read from the ENTRY version of a heap map through an object that existed
// at entry denotes an object that existed at entry (heaps are well-formed: nothing stored points to
// an object that does not exist yet). One ground instance of the heap_wf axiom, at the load.
func (x *Exec) entryHeapFact(name, arr, owner, val string) string {
	if e, ok := x.heapEntry[name]; !ok || e != arr || x.entryNow == "" {
		return "true"
	}
	x.birth()
	return "(=> (<= (birth " + owner + ") " + x.entryNow + ") (<= (birth " + val + ") " + x.entryNow + "))"
}

// refFacts: references read from memory exist (birth <= now).
func (x *Exec) refFacts(st *State, v Val) string {
	var fs []string
	for i, s := range v.S {
		if s.K == SRef {
			fs = append(fs, x.refFact(st, v.L[i]))
		}
	}
	return and(fs...)
}

func (x *Exec) storeAt(st *State, a Addr, v Val) {
	switch a.K {
	case AKCell:
		if a.Hi > 0 {
			old, ok := st.cells[a.Cell]
			if !ok {
				return
			}
			nv := Val{GT: old.GT, S: old.S, L: append([]string{}, old.L...)}
			copy(nv.L[a.Lo:a.Hi], v.L)
			st.cells[a.Cell] = nv
			return
		}
		st.cells[a.Cell] = v
	case AKObj:
		su := a.T.Underlying().(*types.Struct)
		for i := 0; i < su.NumFields(); i++ {
			lo, hi := x.fieldRange(su, i)
			x.storeAt(st, Addr{K: AKField, Ref: a.Ref, ST: a.T, Field: i, T: su.Field(i).Type()},
				Val{GT: su.Field(i).Type(), S: v.S[lo:hi], L: v.L[lo:hi]})
		}
	case AKField:
		if isStructT(a.T) {
			x.storeAt(st, Addr{K: AKObj, Ref: x.subAddr(a.ST, a.Field, a.Ref), T: a.T}, v)
			return
		}
		if isArrayT(a.T) {
			x.storeAt(st, Addr{K: AKArr, Ref: x.subAddr(a.ST, a.Field, a.Ref), T: a.T}, v)
			return
		}
		for k, s := range x.layout(a.T) {
			name := x.fieldArrName(a.ST, a.Field, k)
			arr := x.heapGet(st, name, refArr(s))
			x.heapSet(st, name, refArr(s), "(store "+arr+" "+a.Ref+" "+v.L[k]+")")
		}
	case AKElem:
		for k, s := range x.layout(a.T) {
			name, as := x.elemArr(a.T, k, s)
			arr := x.heapGet(st, name, as)
			x.heapSet(st, name, as, "(store "+arr+" "+a.Ref+" (store (select "+arr+" "+a.Ref+") "+a.Idx+" "+v.L[k]+"))")
		}
	case AKPtr:
		for k, s := range x.layout(a.T) {
			name := fmt.Sprintf("P$%s$%d", typeKey(a.T), k)
			arr := x.heapGet(st, name, refArr(s))
			x.heapSet(st, name, refArr(s), "(store "+arr+" "+a.Ref+" "+v.L[k]+")")
		}
	case AKArr:
		at := a.T.Underlying().(*types.Array)
		ss := x.layout(at.Elem())
		if len(ss) != 1 {
			return
		}
		name, as := x.elemArr(at.Elem(), 0, ss[0])
		arr := x.heapGet(st, name, as)
		x.heapSet(st, name, as, "(store "+arr+" "+a.Ref+" "+v.L[0]+")")
	}
}

// addrToRef materialises an address as a Ref term (for contracts / escaping).
func (x *Exec) addrToRef(st *State, a Addr) string {
	switch a.K {
	case AKObj, AKPtr, AKArr:
		return a.Ref
	case AKField:
		return x.subAddr(a.ST, a.Field, a.Ref)
	case AKElem:
		x.vc.DeclareRaw("addr$elem", "(declare-fun addr$elem (Int Int) Int)")
		idx := a.Idx
		if x.mode.BV {
			idx = "(bv2nat " + idx + ")"
		}
		return "(addr$elem " + a.Ref + " " + idx + ")"
	case AKCell:
		if r, ok := x.cellRefs[a.Cell]; ok {
			return r
		}
		r := x.vc.Declare("celladdr", sortRef)
		x.cellRefs[a.Cell] = r
		x.assumeIn(st, "(> "+r+" 0)")
		return r
	}
	return "0"
}

// pointerAddr turns a pointer-typed Val (one Ref leaf) into an address.
func (x *Exec) pointerAddr(ref string, pointee types.Type) Addr {
	switch pointee.Underlying().(type) {
	case *types.Struct:
		return Addr{K: AKObj, Ref: ref, T: pointee}
	case *types.Array:
		return Addr{K: AKArr, Ref: ref, T: pointee}
	}
	return Addr{K: AKPtr, Ref: ref, T: pointee}
}

// ---- maps ----

func (x *Exec) mapArrs(mt *types.Map) (dom string, domS *Sort, vals []string, valS []*Sort, ok bool) {
	ks := x.layout(mt.Key())
	if len(ks) != 1 {
		return "", nil, nil, nil, false
	}
	key := typeKey(mt.Key()) + "$" + typeKey(mt.Elem())
	dom = "MD$" + key
	domS = refArr(&Sort{K: SArr, Key: ks[0], Val: sortBool})
	for k, s := range x.layout(mt.Elem()) {
		vals = append(vals, fmt.Sprintf("MV$%s$%d", key, k))
		valS = append(valS, refArr(&Sort{K: SArr, Key: ks[0], Val: s}))
	}
	return dom, domS, vals, valS, true
}
