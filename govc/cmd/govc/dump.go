package main

import (
	"fmt"
	"os"
	"path/filepath"
)

func runDump(args []string) int {
	if len(args) < 1 {
		return 2
	}
	specs, err := LoadSpecs(repoDir())
	if err != nil {
		fmt.Println(err)
		return 1
	}
	key := args[0]
	sp, ok := specs.Funcs[key]
	if !ok {
		sp = &FuncSpec{Key: key, Loops: map[int]*LoopSpec{}, NoPanic: true}
	}
	for _, a := range args[1:] {
		if a == "immutable" {
			sp = &FuncSpec{Key: key, Loops: map[int]*LoopSpec{}, ImmutChk: true, Implicit: true}
		}
		if a == "lockset" {
			sp = &FuncSpec{Key: key, Loops: map[int]*LoopSpec{}, Lockset: true, Implicit: true}
		}
	}
	w, err := LoadWorld(specs, []string{pkgOfKey(key, specs)})
	if err != nil {
		fmt.Println(err)
		return 1
	}
	fn := w.FindFunc(key)
	if fn == nil {
		fmt.Println("no such function", key)
		return 1
	}
	if len(args) > 1 && args[1] == "ssa" {
		fn.WriteTo(os.Stdout)
		for _, a := range fn.AnonFuncs {
			a.WriteTo(os.Stdout)
		}
	}
	res := VerifyFunc(w, sp, "", false)
	cfg := SolveCfg{OutDir: filepath.Join(outDir(), "out", "dump"), TimeoutS: 20, Par: 8}
	os.RemoveAll(cfg.OutDir)
	solveAll(res.Obls, cfg)
	for i, o := range res.Obls {
		fmt.Printf("%04d %-10s %-8s %6.2fs %s\n", i, o.Status, o.Solver, o.TimeS, o.Name)
		if o.Status != "discharged" {
			fmt.Printf("       %s\n", truncate(o.Model, 300))
		}
	}
	for _, u := range res.Inferred {
		fmt.Println("INFERRED:", u)
	}
	fmt.Println("inference queries:", res.InferQueries)
	for _, u := range res.Unsup {
		fmt.Println("UNSUPPORTED:", u)
	}
	for _, u := range res.Assumes {
		fmt.Println("ASSUME:", u)
	}
	if res.Err != "" {
		fmt.Println("ERR:", res.Err)
	}
	return 0
}
