package main

import (
	"encoding/json"
	"fmt"
	"os"
	"path/filepath"
)

type replayResult struct {
	confirmed bool
	path      string
}

type ReplayFile struct {
	Obligation string `json:"obligation"`
	Kind       string `json:"kind"`
	Status     string `json:"status"`
	Detail     string `json:"solver_output_or_reason"`
	Note       string `json:"note,omitempty"`
	TestSource string `json:"test_source,omitempty"`
	TestPkgDir string `json:"test_pkg_dir,omitempty"`
	TestOutput string `json:"test_output,omitempty"`
	Confirmed  bool   `json:"confirmed_on_real_code"`
}

func writeReplayFile(dir string, o *Obligation, testSrc, testOut string) string {
	os.MkdirAll(dir, 0o755)
	n := 0
	for {
		p := filepath.Join(dir, fmt.Sprintf("replay_%03d.json", n))
		if _, err := os.Stat(p); err != nil {
			rf := ReplayFile{Obligation: o.Name, Kind: o.Kind, Status: o.Status, Detail: o.Model, Note: o.Note, TestSource: testSrc, TestOutput: testOut}
			b, _ := json.MarshalIndent(rf, "", " ")
			os.WriteFile(p, b, 0o644)
			return p
		}
		n++
	}
}

func tryReplay(w *World, o *Obligation, dir string) replayResult {
	return replayResult{false, writeReplayFile(dir, o, "", "")}
}

func runReplayFile(path string) int {
	b, err := os.ReadFile(path)
	if err != nil {
		fmt.Println(err)
		return 2
	}
	var rf ReplayFile
	json.Unmarshal(b, &rf)
	fmt.Printf("obligation: %s\nstatus: %s\n%s\n", rf.Obligation, rf.Status, rf.Detail)
	return 0
}
