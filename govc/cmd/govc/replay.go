package main

// Replay of refuted obligations on the real code: the solver's model is turned
// into concrete Go inputs, an in-package test that calls the REAL function is
// generated and run with `go test -overlay` (nothing is written into the
// repository). A safety obligation is confirmed when the call panics.

import (
	"context"
	"encoding/json"
	"fmt"
	"go/types"
	"math/big"
	"os"
	"os/exec"
	"path/filepath"
	"strings"
	"sync"
	"time"
)

type replayResult struct {
	confirmed bool
	path      string
}

type ReplayFile struct {
	Obligation string `json:"obligation"`
	Kind       string `json:"kind"`
	Status     string `json:"status"`
	Detail     string `json:"solver_output_or_reason"`
	Note       string `json:"note,omitempty"`
	Inputs     string `json:"inputs_from_model,omitempty"`
	TestSource string `json:"test_source,omitempty"`
	TestPkg    string `json:"test_pkg,omitempty"`
	TestOutput string `json:"test_output,omitempty"`
	Confirmed  bool   `json:"confirmed_on_real_code"`
}

var replayMu sync.Mutex

func writeReplayFileRF(dir string, rf ReplayFile) string {
	replayMu.Lock()
	defer replayMu.Unlock()
	os.MkdirAll(dir, 0o755)
	n := 0
	for {
		p := filepath.Join(dir, fmt.Sprintf("replay_%03d.json", n))
		if _, err := os.Stat(p); err != nil {
			b, _ := json.MarshalIndent(rf, "", " ")
			os.WriteFile(p, b, 0o644)
			return p
		}
		n++
	}
}

func writeReplayFile(dir string, o *Obligation, testSrc, testOut string) string {
	return writeReplayFileRF(dir, ReplayFile{Obligation: o.Name, Kind: o.Kind, Status: o.Status, Detail: truncate(o.Model, 4000), Note: o.Note, TestSource: testSrc, TestOutput: testOut})
}

func panicKind(k string) bool {
	switch k {
	case "index", "slice", "makeslice", "divzero", "nil", "nilmap", "typeassert", "panic", "negshift", "nilfunc":
		return true
	}
	return strings.HasPrefix(k, "pre ")
}

// modelValues asks the solver for the values of the given terms in a model of the refuted obligation.
func modelValues(o *Obligation, terms []string, dir string) (map[string]string, bool) {
	if len(terms) == 0 {
		return map[string]string{}, true
	}
	hyps := append([]string{}, o.Hyps...)
	for _, t := range terms {
		hyps = append(hyps, "(= "+t+" "+t+")") // only to pull the terms' definitions into the query
	}
	txt := o.VC.Emit(hyps, o.Goal, true)
	// quantified hypotheses make the solver answer unknown: drop them for model search (the model is
	// validated by running the real code, so weakening the hypotheses is harmless)
	txt = stripQuantifiedAsserts(txt)
	txt = strings.Replace(txt, "(get-model)", "(get-value ("+strings.Join(terms, " ")+"))", 1)
	os.MkdirAll(dir, 0o755)
	f := filepath.Join(dir, "model_query.smt2")
	os.WriteFile(f, []byte(txt), 0o644)
	r := runSolver(context.Background(), solverSpec{"z3-new", func(f string, t float64) []string {
		return []string{"z3-new", "-T:20", f}
	}}, f, 20)
	if r.verdict != "sat" {
		return nil, false
	}
	body := r.out
	k := strings.Index(body, "(")
	if k < 0 {
		return nil, false
	}
	out := map[string]string{}
	for _, pair := range sexpList(body[k:]) {
		kv := sexpList(pair)
		if len(kv) == 2 {
			out[strings.Join(strings.Fields(kv[0]), " ")] = strings.TrimSpace(kv[1])
		}
	}
	return out, true
}

func stripQuantifiedAsserts(txt string) string {
	var out []string
	for _, l := range strings.Split(txt, "\n") {
		if strings.HasPrefix(l, "(assert ") && (strings.Contains(l, "(forall ") || strings.Contains(l, "(exists ")) {
			// keep definitions "x = (and a (forall ..))" weakened: replace the quantified conjunct by true
			l = weakenQuantifiers(l)
		}
		out = append(out, l)
	}
	return strings.Join(out, "\n")
}

func weakenQuantifiers(l string) string {
	for {
		k := strings.Index(l, "(forall ")
		if k < 0 {
			k = strings.Index(l, "(exists ")
		}
		if k < 0 {
			return l
		}
		d := 0
		end := -1
		for m := k; m < len(l); m++ {
			if l[m] == '(' {
				d++
			} else if l[m] == ')' {
				d--
				if d == 0 {
					end = m
					break
				}
			}
		}
		if end < 0 {
			return l
		}
		l = l[:k] + "true" + l[end+1:]
	}
}

func parseSMTInt(v string) (*big.Int, bool) {
	v = strings.TrimSpace(v)
	switch {
	case strings.HasPrefix(v, "#x"):
		n, ok := new(big.Int).SetString(v[2:], 16)
		return n, ok
	case strings.HasPrefix(v, "#b"):
		n, ok := new(big.Int).SetString(v[2:], 2)
		return n, ok
	case strings.HasPrefix(v, "(- "):
		n, ok := new(big.Int).SetString(strings.TrimSuffix(v[3:], ")"), 10)
		if ok {
			n.Neg(n)
		}
		return n, ok
	case strings.HasPrefix(v, "(_ bv"):
		f := strings.Fields(v[5:])
		n, ok := new(big.Int).SetString(f[0], 10)
		return n, ok
	}
	n, ok := new(big.Int).SetString(v, 10)
	return n, ok
}

type litBuilder struct {
	o      *Obligation
	x      map[string]string // term -> value (after query)
	terms  []string
	maxLen int
}

// floatBitsTerm: the bit pattern of a float input - the constant the path itself used for bits(f) when
// there is one (a NaN has many patterns), else z3's fp.to_ieee_bv.
func (lb *litBuilder) floatBitsTerm(f string) string {
	if lb.o != nil && lb.o.VC != nil {
		if b, ok := lb.o.VC.fpBits[f]; ok {
			return b
		}
	}
	return "(fp.to_ieee_bv " + f + ")"
}

func (lb *litBuilder) want(t string) {
	lb.terms = append(lb.terms, strings.Join(strings.Fields(t), " "))
}

func (lb *litBuilder) intOf(t string, s *Sort) (*big.Int, bool) {
	v, ok := lb.x[strings.Join(strings.Fields(t), " ")]
	if !ok {
		return nil, false
	}
	n, ok := parseSMTInt(v)
	if !ok {
		return nil, false
	}
	if s != nil && s.K == SBV && s.Signed && n.Cmp(pow2(s.Bits-1)) >= 0 {
		n = new(big.Int).Sub(n, pow2(s.Bits))
	}
	return n, true
}

func elemTerm(o *Obligation, et types.Type, base, idx string, mode Mode) string {
	name := fmt.Sprintf("E$%s$0", typeKey(et))
	e, ok := o.EntryHeap[name]
	if !ok {
		return ""
	}
	return "(select (select " + e + " " + base + ") " + idx + ")"
}

// collect / build: two passes over the type structure of a value.
func (lb *litBuilder) scalarLit(t types.Type, term string, s *Sort) (string, bool) {
	b, ok := t.Underlying().(*types.Basic)
	if !ok {
		return "", false
	}
	switch {
	case b.Info()&types.IsBoolean != 0:
		v := lb.x[strings.Join(strings.Fields(term), " ")]
		return v, v == "true" || v == "false"
	case b.Info()&types.IsInteger != 0:
		n, ok := lb.intOf(term, s)
		if !ok {
			return "", false
		}
		return fmt.Sprintf("%s(%s)", types.TypeString(t, relPkg), n.String()), true
	}
	return "", false
}

func relPkg(p *types.Package) string { return "" }

const replayMaxElems = 40

// valueTerms registers the terms needed to rebuild v.
func (lb *litBuilder) valueTerms(v Val, mode Mode) bool {
	t := v.GT
	if t == nil {
		return false
	}
	switch u := t.Underlying().(type) {
	case *types.Basic:
		if u.Info()&types.IsString != 0 {
			lb.want("(str.len " + v.L[0] + ")")
			for k := 0; k < replayMaxElems; k++ {
				lb.want(fmt.Sprintf("(str.at %s %d)", v.L[0], k))
			}
			return true
		}
		if u.Info()&(types.IsInteger|types.IsBoolean) != 0 {
			lb.want(v.L[0])
			return true
		}
		if u.Kind() == types.Float64 && len(v.S) == 1 && v.S[0].K == SFP {
			lb.want(lb.floatBitsTerm(v.L[0]))
			return true
		}
	case *types.Slice:
		eb, ok := u.Elem().Underlying().(*types.Basic)
		if !ok || eb.Info()&types.IsInteger == 0 {
			return false
		}
		lb.want(v.L[0])
		lb.want(v.L[1])
		lb.want(v.L[2])
		lb.want(v.L[3])
		for k := 0; k < replayMaxElems; k++ {
			idx := fmt.Sprintf("(+ %s %d)", v.L[1], k)
			if mode.BV {
				idx = fmt.Sprintf("(bvadd %s (_ bv%d 64))", v.L[1], k)
			}
			if et := elemTerm(lb.o, u.Elem(), v.L[0], idx, mode); et != "" {
				lb.want(et)
			}
		}
		return true
	}
	return false
}

func (lb *litBuilder) valueLit(v Val, mode Mode) (string, bool) {
	t := v.GT
	switch u := t.Underlying().(type) {
	case *types.Basic:
		if u.Info()&types.IsString != 0 {
			n, ok := lb.intOf("(str.len "+v.L[0]+")", nil)
			if !ok || n.Sign() < 0 || n.Cmp(big.NewInt(replayMaxElems)) > 0 {
				return "", false
			}
			bs := make([]byte, n.Int64())
			for k := range bs {
				if c, ok := lb.intOf(fmt.Sprintf("(str.at %s %d)", v.L[0], k), nil); ok && c.IsInt64() && c.Int64() >= 0 && c.Int64() < 256 {
					bs[k] = byte(c.Int64())
				}
			}
			return fmt.Sprintf("%s(%q)", types.TypeString(t, relPkg), string(bs)), true
		}
		if u.Kind() == types.Float64 && len(v.S) == 1 && v.S[0].K == SFP {
			n, ok := lb.intOf(lb.floatBitsTerm(v.L[0]), nil)
			if !ok {
				return "", false
			}
			return fmt.Sprintf("math.Float64frombits(0x%x)", n), true
		}
		return lb.scalarLit(t, v.L[0], v.S[0])
	case *types.Slice:
		base, ok := lb.intOf(v.L[0], nil)
		if !ok {
			return "", false
		}
		if base.Sign() == 0 {
			return "nil", true
		}
		n, ok1 := lb.intOf(v.L[2], v.S[2])
		c, ok2 := lb.intOf(v.L[3], v.S[3])
		if !ok1 || !ok2 || n.Sign() < 0 || n.Cmp(big.NewInt(replayMaxElems)) > 0 {
			return "", false
		}
		capv := n.Int64()
		if c.IsInt64() && c.Int64() > capv && c.Int64() <= 4*replayMaxElems {
			capv = c.Int64()
		}
		var elems []string
		es := &Sort{K: SInt}
		if mode.BV {
			bits, signed := basicBits(u.Elem().Underlying().(*types.Basic))
			es = &Sort{K: SBV, Bits: bits, Signed: signed}
		}
		for k := int64(0); k < n.Int64(); k++ {
			idx := fmt.Sprintf("(+ %s %d)", v.L[1], k)
			if mode.BV {
				idx = fmt.Sprintf("(bvadd %s (_ bv%d 64))", v.L[1], k)
			}
			val := big.NewInt(0)
			if et := elemTerm(lb.o, u.Elem(), v.L[0], idx, mode); et != "" {
				if x, ok := lb.intOf(et, es); ok {
					val = x
				}
			}
			// clamp into the element type
			bits, signed := basicBits(u.Elem().Underlying().(*types.Basic))
			lo, hi := rangeOf(&Sort{Bits: bits, Signed: signed})
			if val.Cmp(lo) < 0 || val.Cmp(hi) > 0 {
				val = big.NewInt(0)
			}
			elems = append(elems, val.String())
		}
		ts := types.TypeString(t, relPkg)
		lit := fmt.Sprintf("append(make(%s, 0, %d), %s{%s}...)", ts, capv, ts, strings.Join(elems, ", "))
		return lit, true
	}
	return "", false
}

// tryReplay builds and runs a replay test for a refuted safety obligation.
func tryReplay(w *World, o *Obligation, dir string) replayResult {
	rf := ReplayFile{Obligation: o.Name, Kind: o.Kind, Status: o.Status, Detail: truncate(o.Model, 3000), Note: o.Note}
	fail := func(why string) replayResult {
		if rf.Note != "" {
			rf.Note += "; "
		}
		rf.Note += "no replay: " + why
		// last resort: a hand-written replay hint for this function (bounded search on the real code for
		// inputs that live behind an interface, e.g. a file in a Directory). Only a reproduced failure counts.
		if w != nil && o.RootKey != "" && o.Status != "discharged" && os.Getenv("VERIF_NO_REPLAY") == "" {
			if src, pkg, ok := replayHint(w, o.RootKey); ok {
				out, confirmed := runHintOnce(w.repo, pkg, o.RootKey, src)
				rf.Note += "; replay hint " + hintPath(o.RootKey) + " run"
				if confirmed {
					rf.TestSource = src
					rf.TestPkg = pkg
					rf.TestOutput = truncate(out, 3000)
					rf.Confirmed = true
					return replayResult{true, writeReplayFileRF(dir, rf)}
				}
				rf.Note += " (no failure reproduced)"
			}
		}
		return replayResult{false, writeReplayFileRF(dir, rf)}
	}
	if w == nil || w.prog == nil || o.VC == nil || o.RootKey == "" || os.Getenv("VERIF_NO_REPLAY") != "" {
		return fail("obligation has no executable counterpart")
	}
	if o.Status == "discharged" {
		return fail("discharged")
	}
	functional := o.Kind == "ensures" && o.Status == "refuted"
	if !panicKind(o.Kind) && !functional {
		return fail("not a panic-class obligation (ghost / functional clause): no concrete witness is constructed")
	}
	fn := w.FindFunc(o.RootKey)
	if fn == nil || fn.Pkg == nil {
		return fail("function not found")
	}
	mode := o.VC.mode
	lb := &litBuilder{o: o}
	// receiver + params
	for _, in := range o.Inputs {
		if !lb.valueTerms(in.V, mode) {
			// pointer receiver with scalar fields?
			if p, ok := in.GT.Underlying().(*types.Pointer); ok {
				if su, ok := p.Elem().Underlying().(*types.Struct); ok {
					okAll := true
					for i := 0; i < su.NumFields(); i++ {
						fb, isB := su.Field(i).Type().Underlying().(*types.Basic)
						if !isB || fb.Info()&(types.IsInteger|types.IsBoolean) == 0 {
							okAll = false
							break
						}
						name := fmt.Sprintf("H$%s$%s$0", typeKey(p.Elem()), su.Field(i).Name())
						if e, ok := o.EntryHeap[name]; ok {
							lb.want("(select " + e + " " + in.V.L[0] + ")")
						}
					}
					if okAll {
						continue
					}
				}
			}
			return fail("input " + in.Name + " of type " + in.GT.String() + " is not concretisable")
		}
	}
	tmpd, _ := os.MkdirTemp("", "govc-model")
	vals, ok := modelValues(o, lb.terms, tmpd)
	if os.Getenv("GOVC_KEEP_TMP") == "" {
		os.RemoveAll(tmpd)
	}
	if !ok {
		return fail("solver gave no model for the quantifier-free part")
	}
	lb.x = vals
	var args []string
	var inputsDesc []string
	for _, in := range o.Inputs {
		lit, ok := lb.valueLit(in.V, mode)
		if !ok {
			if p, isP := in.GT.Underlying().(*types.Pointer); isP {
				if su, isS := p.Elem().Underlying().(*types.Struct); isS {
					var fs []string
					for i := 0; i < su.NumFields(); i++ {
						name := fmt.Sprintf("H$%s$%s$0", typeKey(p.Elem()), su.Field(i).Name())
						e, has := o.EntryHeap[name]
						if !has {
							continue
						}
						fl, ok := lb.scalarLit(su.Field(i).Type(), "(select "+e+" "+in.V.L[0]+")", lb.o.VC.sortOfGo(su.Field(i).Type()))
						if ok {
							fs = append(fs, su.Field(i).Name()+": "+fl)
						}
					}
					lit, ok = "&"+types.TypeString(p.Elem(), relPkg)+"{"+strings.Join(fs, ", ")+"}", true
				}
			}
			if !ok {
				return fail("model value of " + in.Name + " could not be turned into a Go literal")
			}
		}
		args = append(args, lit)
		inputsDesc = append(inputsDesc, in.Name+" = "+lit)
	}
	rf.Inputs = strings.Join(inputsDesc, "; ")
	if functional {
		src, why := functionalReplay(w, o, fn, args)
		if src == "" {
			return fail(why)
		}
		rf.TestSource = src
		rf.TestPkg = fn.Pkg.Pkg.Path()
		out, confirmed := runOverlayTest(w.repo, fn.Pkg.Pkg.Path(), src)
		rf.TestOutput = truncate(out, 3000)
		rf.Confirmed = confirmed
		return replayResult{confirmed, writeReplayFileRF(dir, rf)}
	}
	// call expression
	var call string
	if fn.Signature.Recv() != nil {
		if len(args) == 0 {
			return fail("no receiver value")
		}
		call = "(" + args[0] + ")." + fn.Name() + "(" + strings.Join(args[1:], ", ") + ")"
	} else {
		call = fn.Name() + "(" + strings.Join(args, ", ") + ")"
	}
	src := fmt.Sprintf(`package %s

import (
	"fmt"
	"math"
	"testing"
)

var _ = math.IsNaN

// generated by govc from the solver's model of the failed obligation
// %s
func TestVerifReplay(t *testing.T) {
	defer func() {
		if r := recover(); r != nil {
			fmt.Printf("REPLAY-CONFIRMED panic: %%v\n", r)
			t.Fail()
		}
	}()
	%s
	fmt.Println("REPLAY-NO-PANIC")
}
`, fn.Pkg.Pkg.Name(), strings.ReplaceAll(o.Name, "\n", " "), call)
	rf.TestSource = src
	rf.TestPkg = fn.Pkg.Pkg.Path()
	out, confirmed := runOverlayTest(w.repo, fn.Pkg.Pkg.Path(), src)
	rf.TestOutput = truncate(out, 3000)
	rf.Confirmed = confirmed
	return replayResult{confirmed, writeReplayFileRF(dir, rf)}
}

func hintPath(rootKey string) string {
	k := strings.TrimPrefix(rootKey, modulePath+"/")
	k = strings.NewReplacer("/", ".", "(", "", ")", "", "*", "").Replace(k)
	return filepath.Join(verifDir(), "replay_hints", k+".go")
}

// replayHint: source and package of the hand-written replay hint of a function, if there is one.
func replayHint(w *World, rootKey string) (src, pkg string, ok bool) {
	fn := w.FindFunc(rootKey)
	if fn == nil || fn.Pkg == nil {
		return "", "", false
	}
	b, err := os.ReadFile(hintPath(rootKey))
	if err != nil {
		return "", "", false
	}
	return string(b), fn.Pkg.Pkg.Path(), true
}

var hintMu sync.Mutex
var hintRuns = map[string]*struct {
	once      sync.Once
	out       string
	confirmed bool
}{}

// runHintOnce: a hint is run once per function and run (several obligations of one function share it).
func runHintOnce(repo, pkg, rootKey, src string) (string, bool) {
	hintMu.Lock()
	r := hintRuns[rootKey]
	if r == nil {
		r = &struct {
			once      sync.Once
			out       string
			confirmed bool
		}{}
		hintRuns[rootKey] = r
	}
	hintMu.Unlock()
	r.once.Do(func() { r.out, r.confirmed = runOverlayTest(repo, pkg, src) })
	return r.out, r.confirmed
}

func runOverlayTest(repo, pkgPath, src string) (string, bool) {
	rel := strings.TrimPrefix(strings.TrimPrefix(pkgPath, modulePath), "/")
	if rel == "" {
		rel = "."
	}
	tmp, err := os.MkdirTemp("", "govc-replay")
	if err != nil {
		return err.Error(), false
	}
	defer os.RemoveAll(tmp)
	tf := filepath.Join(tmp, "t_test.go")
	os.WriteFile(tf, []byte(src), 0o644)
	ov := map[string]map[string]string{"Replace": {filepath.Join(repo, rel, "zz_verif_replay_test.go"): tf}}
	b, _ := json.Marshal(ov)
	ovf := filepath.Join(tmp, "ov.json")
	os.WriteFile(ovf, b, 0o644)
	ctx, cancel := context.WithTimeout(context.Background(), 120*time.Second)
	defer cancel()
	cmd := exec.CommandContext(ctx, "bash", "-c", fmt.Sprintf("ulimit -v 4000000; cd %s && go test -overlay %s -vet=off -timeout 60s -count=1 -run '^TestVerifReplay$' ./%s 2>&1 | tail -40", repo, ovf, rel))
	cmd.Env = append(os.Environ(), "GOFLAGS=-mod=mod", "GOPROXY=off", "GOSUMDB=off", "GOTOOLCHAIN=local")
	out, _ := cmd.CombinedOutput()
	s := string(out)
	return s, strings.Contains(s, "REPLAY-CONFIRMED")
}

func runReplayFile(path string) int {
	b, err := os.ReadFile(path)
	if err != nil {
		fmt.Println(err)
		return 2
	}
	var rf ReplayFile
	json.Unmarshal(b, &rf)
	fmt.Printf("obligation: %s\nstatus: %s\n", rf.Obligation, rf.Status)
	if rf.Inputs != "" {
		fmt.Println("inputs:", rf.Inputs)
	}
	if rf.TestSource == "" {
		fmt.Printf("no executable witness (no-failing-input-found)\n%s\n%s\n", rf.Note, rf.Detail)
		return 1
	}
	out, confirmed := runOverlayTest(repoDir(), rf.TestPkg, rf.TestSource)
	fmt.Println(out)
	if confirmed {
		fmt.Println("replay: the failure reproduces on the real code")
		return 1
	}
	fmt.Println("replay: the failure does not reproduce")
	return 0
}
