package main

// Replay of a refuted functional clause (ensures) on the real code.
//
// Applies when the function was verified in bit-vector mode (machine arithmetic is modelled exactly,
// so a Go evaluation of the clause means the same thing as the solver's), all inputs are concretisable
// from the model, and the clause is quantifier-free over parameters, results, conversions, bits /
// frombits / isNaN ..., ite and spec functions that have a body. The generated in-package test calls
// the REAL function with the model's inputs, evaluates the clause in Go and prints REPLAY-CONFIRMED
// when it is false.

import (
	"fmt"
	"go/types"
	"os"
	"sort"
	"strings"

	"golang.org/x/tools/go/ssa"
)

type goTr struct {
	w      *World
	names  map[string]string // contract identifier -> Go expression
	fns    map[string]*SpecFn
	needed map[string]bool
	bad    string
}

func (g *goTr) fail(why string) string {
	if g.bad == "" {
		g.bad = why
	}
	return "false"
}

var goConv = map[string]bool{"int": true, "int8": true, "int16": true, "int32": true, "int64": true, "uint": true, "uint8": true, "uint16": true, "uint32": true, "uint64": true, "byte": true, "rune": true, "float64": true, "float32": true, "bool": true}

func (g *goTr) tr(e Expr) string { return g.trT(e, "") }

// trT translates e; want is the Go type the context expects ("" when unknown). The module is at
// go1.13, so ite becomes a typed function literal and needs the type.
func (g *goTr) trT(e Expr, want string) string {
	switch n := e.(type) {
	case EIdent:
		if v, ok := g.names[n.Name]; ok {
			return v
		}
		return g.fail("identifier " + n.Name + " has no Go counterpart")
	case EInt:
		return n.V
	case EFloat:
		return n.V
	case EBool:
		return fmt.Sprint(n.V)
	case ENil:
		return "nil"
	case EUnary:
		return "(" + n.Op + g.trT(n.X, want) + ")"
	case EBin:
		ow := ""
		switch n.Op {
		case "+", "-", "*", "/", "%", "&", "|", "^", "&^":
			ow = want
		}
		x, y := g.trT(n.X, ow), g.trT(n.Y, ow)
		if n.Op == "<<" || n.Op == ">>" {
			x = g.trT(n.X, want)
		}
		switch n.Op {
		case "==>":
			return "(!(" + x + ") || (" + y + "))"
		case "<==>":
			return "((" + x + ") == (" + y + "))"
		}
		return "(" + x + " " + n.Op + " " + y + ")"
	case EIndex:
		return g.tr(n.X) + "[" + g.tr(n.I) + "]"
	case ECall:
		var a []string
		for _, x := range n.Args {
			a = append(a, g.tr(x))
		}
		switch {
		case n.Fn == "ite" && len(a) == 3:
			if want == "" {
				return g.fail("ite in a position whose Go type is not known")
			}
			return "func() " + want + " { if " + a[0] + " { return " + want + "(" + g.trT(n.Args[1], want) + ") }; return " + want + "(" + g.trT(n.Args[2], want) + ") }()"
		case n.Fn == "len" && len(a) == 1:
			return "int64(len(" + a[0] + "))"
		case n.Fn == "bits" && len(a) == 1:
			return "math.Float64bits(" + a[0] + ")"
		case n.Fn == "frombits" && len(a) == 1:
			return "math.Float64frombits(" + a[0] + ")"
		case n.Fn == "isNaN" && len(a) == 1:
			return "math.IsNaN(" + a[0] + ")"
		case n.Fn == "isInf" && len(a) == 1:
			return "math.IsInf(" + a[0] + ", 0)"
		case n.Fn == "isPosInf" && len(a) == 1:
			return "math.IsInf(" + a[0] + ", 1)"
		case n.Fn == "isNegInf" && len(a) == 1:
			return "math.IsInf(" + a[0] + ", -1)"
		case n.Fn == "isNegZero" && len(a) == 1:
			return "(" + a[0] + " == 0 && math.Signbit(" + a[0] + "))"
		case n.Fn == "isPosZero" && len(a) == 1:
			return "(" + a[0] + " == 0 && !math.Signbit(" + a[0] + "))"
		case goConv[n.Fn] && len(a) == 1:
			return n.Fn + "(" + g.trT(n.Args[0], "") + ")"
		}
		if fn, ok := g.fns[n.Fn]; ok && fn.Body != nil && !fn.Rec && len(fn.Params) == len(a) {
			g.needed[n.Fn] = true
			return "verifSpec_" + n.Fn + "(" + strings.Join(a, ", ") + ")"
		}
		return g.fail("call of " + n.Fn + " is not translatable")
	}
	return g.fail(fmt.Sprintf("%T is not translatable", e))
}

func goSpecType(t string) (string, bool) {
	if goConv[t] {
		return t, true
	}
	return "", false
}

// specFnDecls renders the needed spec functions (transitively) as Go functions.
func (g *goTr) specFnDecls() string {
	var b strings.Builder
	done := map[string]bool{}
	for {
		var todo []string
		for n := range g.needed {
			if !done[n] {
				todo = append(todo, n)
			}
		}
		if len(todo) == 0 {
			break
		}
		sort.Strings(todo)
		for _, n := range todo {
			done[n] = true
			fn := g.fns[n]
			saved := g.names
			g.names = map[string]string{}
			var ps []string
			for _, p := range fn.Params {
				gt, ok := goSpecType(p.Type)
				if !ok {
					g.fail("spec fn " + n + ": parameter type " + p.Type)
				}
				ps = append(ps, p.Name+" "+gt)
				g.names[p.Name] = p.Name
			}
			rt, ok := goSpecType(fn.Ret)
			if !ok {
				g.fail("spec fn " + n + ": result type " + fn.Ret)
			}
			body := g.trT(fn.Body, rt)
			g.names = saved
			fmt.Fprintf(&b, "func verifSpec_%s(%s) %s { return %s(%s) }\n", n, strings.Join(ps, ", "), rt, rt, body)
		}
	}
	return b.String()
}

func clauseByName(clauses []Clause, name string) *Clause {
	name = occurrenceFree(name)
	for i := range clauses {
		if clauses[i].Name() == name {
			return &clauses[i]
		}
	}
	return nil
}

func hasQuant(e Expr) bool {
	switch n := e.(type) {
	case EQuant:
		return true
	case EUnary:
		return hasQuant(n.X)
	case EBin:
		return hasQuant(n.X) || hasQuant(n.Y)
	case ECall:
		for _, a := range n.Args {
			if hasQuant(a) {
				return true
			}
		}
	case EIndex:
		return hasQuant(n.X) || hasQuant(n.I)
	case ESel:
		return hasQuant(n.X)
	}
	return false
}

// functionalReplay builds the test for an `ensures` obligation; ok is false when it does not apply.
func functionalReplay(w *World, o *Obligation, fn *ssa.Function, args []string) (src string, why string) {
	spec := w.specs.Funcs[o.RootKey]
	if spec == nil || !spec.BV {
		return "", "functional clauses are replayed only for functions verified in bit-vector mode"
	}
	i := strings.Index(o.Name, "#ensures:")
	if i < 0 {
		return "", "not an ensures clause"
	}
	cl := clauseByName(spec.Ensures, o.Name[i+len("#ensures:"):])
	if cl == nil {
		return "", "clause not found"
	}
	if hasQuant(cl.E) {
		return "", "the clause is quantified"
	}
	sig := fn.Signature
	g := &goTr{w: w, names: map[string]string{}, fns: w.specs.Fns, needed: map[string]bool{}}
	// parameters
	var pdecl []string
	k := 0
	if sig.Recv() != nil {
		pdecl = append(pdecl, fmt.Sprintf("%s := %s", fn.Params[0].Name(), args[0]))
		g.names[fn.Params[0].Name()] = fn.Params[0].Name()
		k = 1
	}
	for j := 0; j < sig.Params().Len(); j++ {
		n := fn.Params[k+j].Name()
		pdecl = append(pdecl, fmt.Sprintf("%s := %s", n, args[k+j]))
		g.names[n] = n
	}
	// results
	rn := resultNames(spec, sig)
	var rvars []string
	for j := range rn {
		rv := fmt.Sprintf("verifR%d", j)
		rvars = append(rvars, rv)
		g.names[rn[j]] = rv
		g.names[fmt.Sprintf("result%d", j)] = rv
		if sig.Results().Len() == 1 {
			g.names["result"] = rv
		}
	}
	cond := g.tr(cl.E)
	decls := g.specFnDecls()
	if g.bad != "" {
		return "", g.bad
	}
	var call string
	var pnames []string
	for j := k; j < len(fn.Params); j++ {
		pnames = append(pnames, fn.Params[j].Name())
	}
	if sig.Recv() != nil {
		call = fn.Params[0].Name() + "." + fn.Name() + "(" + strings.Join(pnames, ", ") + ")"
	} else {
		call = fn.Name() + "(" + strings.Join(pnames, ", ") + ")"
	}
	assign := call
	if len(rvars) > 0 {
		assign = strings.Join(rvars, ", ") + " := " + call
	}
	var use []string
	for _, p := range fn.Params {
		use = append(use, "_ = "+p.Name())
	}
	for _, r := range rvars {
		use = append(use, "_ = "+r)
	}
	src = fmt.Sprintf(`package %s

import (
	"fmt"
	"math"
	"testing"
)

var _ = math.IsNaN

%s
// generated by govc from the solver's model of the failed obligation
// %s
func TestVerifReplay(t *testing.T) {
	%s
	%s
	%s
	if !(%s) {
		fmt.Printf("REPLAY-CONFIRMED the clause is false on the real code for these inputs; results: %%v\n", []interface{}{%s})
		t.Fail()
		return
	}
	fmt.Println("REPLAY-CLAUSE-HOLDS")
}
`, fn.Pkg.Pkg.Name(), decls, strings.ReplaceAll(o.Name, "\n", " "), strings.Join(pdecl, "\n\t"), assign, strings.Join(use, "\n\t"), cond, strings.Join(rvars, ", "))
	_ = types.Typ
	_ = os.Getenv
	return src, ""
}
