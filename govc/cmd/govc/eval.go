package main

// Evaluation of contract expressions into SMT terms in a given symbolic state.

import (
	"fmt"
	"go/token"
	"go/types"
	"math/big"
	"sort"
	"strings"

	"golang.org/x/tools/go/ssa"
)

type EvalCtx struct {
	x     *Exec
	fr    *Frame         // for resolving locals of the function under verification (may be nil)
	names map[string]Val // parameters / results / bound variables
	st    *State         // state for heap & ghost reads and local cells
	old   *State         // state denoted by old(...)
	oldNames map[string]Val
	useLocals bool       // identifiers may denote current values of local variables
	pos   token.Pos      // scope position for local lookup
	depth int
}

func (c *EvalCtx) clone() *EvalCtx {
	n := *c
	n.names = map[string]Val{}
	for k, v := range c.names {
		n.names[k] = v
	}
	return &n
}

func (x *Exec) specSort(tn string) (*Sort, error) {
	switch tn {
	case "int", "nat":
		return sortInt, nil
	case "bool":
		return sortBool, nil
	case "real":
		return sortReal, nil
	case "ref":
		return sortRef, nil
	case "string":
		x.needStr()
		return sortStr, nil
	case "float64", "float32":
		return x.floatSort(), nil
	case "int8":
		return x.intSort(8, true), nil
	case "int16":
		return x.intSort(16, true), nil
	case "int32", "rune":
		return x.intSort(32, true), nil
	case "int64", "Int":
		return x.intSort(64, true), nil
	case "uint8", "byte":
		return x.intSort(8, false), nil
	case "uint16":
		return x.intSort(16, false), nil
	case "uint32":
		return x.intSort(32, false), nil
	case "uint64", "uint", "uintptr":
		return x.intSort(64, false), nil
	}
	if strings.HasPrefix(tn, "map[") {
		d := 0
		for i := 4; i < len(tn); i++ {
			switch tn[i] {
			case '[':
				d++
			case ']':
				if d == 0 {
					k, err := x.specSort(tn[4:i])
					if err != nil {
						return nil, err
					}
					v, err := x.specSort(tn[i+1:])
					if err != nil {
						return nil, err
					}
					return &Sort{K: SArr, Key: k, Val: v}, nil
				}
				d--
			}
		}
	}
	if strings.HasPrefix(tn, "*") {
		return sortRef, nil
	}
	return nil, fmt.Errorf("unknown spec type %q", tn)
}

func (c *EvalCtx) errf(f string, a ...interface{}) error { return fmt.Errorf(f, a...) }

// lookupLocal resolves a source-level variable name to the current value of
// its cell in the function under verification.
func (c *EvalCtx) lookupLocal(name string) (Val, bool) {
	fr := c.fr
	if fr == nil {
		return Val{}, false
	}
	// candidates: allocs with this source name that have a live address
	var best *ssa.Alloc
	if name == "rangeindex" && c.x.curLoop != nil {
		if ra := rangeIndexAlloc(c.x.curLoop); ra != nil {
			if a, ok := fr.addrs[ra]; ok {
				return c.x.loadAt(c.st, a), true
			}
		}
	}
	var obj types.Object
	if c.pos != token.NoPos {
		if pkg := fr.fn.Pkg; pkg != nil {
			if sc := pkg.Pkg.Scope().Innermost(c.pos); sc != nil {
				_, obj = sc.LookupParent(name, c.pos)
			}
		}
	}
	var cands []*ssa.Alloc
	for v := range fr.addrs {
		if al, ok := v.(*ssa.Alloc); ok && al.Comment == name {
			cands = append(cands, al)
		}
	}
	sort.Slice(cands, func(i, j int) bool {
		if cands[i].Pos() != cands[j].Pos() {
			return cands[i].Pos() < cands[j].Pos()
		}
		return cands[i].Name() < cands[j].Name()
	})
	for _, al := range cands {
		if obj != nil && al.Pos() == obj.Pos() {
			best = al
			break
		}
	}
	if best == nil && obj == nil && len(cands) > 0 {
		best = cands[len(cands)-1]
	}
	if best == nil && len(cands) > 0 {
		// parameters are copied into allocs named like them; fall back to the first alloc with the name
		best = cands[0]
	}
	if best == nil {
		return Val{}, false
	}
	a := fr.addrs[best]
	if a.K == AKCell {
		if _, live := c.st.cells[a.Cell]; !live {
			return Val{}, false
		}
	}
	return c.x.loadAt(c.st, a), true
}

func (c *EvalCtx) eval(e Expr, want *Sort) (Val, error) {
	x := c.x
	switch n := e.(type) {
	case EBool:
		return boolVal(fmt.Sprint(n.V)), nil
	case EInt:
		v, ok := new(big.Int).SetString(n.V, 0)
		if !ok {
			return Val{}, c.errf("bad integer %s", n.V)
		}
		s := sortInt
		if want != nil && want.IsNum() {
			s = want
		}
		return scalar(s, x.numLit(v, s)), nil
	case EFloat:
		r, ok := new(big.Rat).SetString(n.V)
		if !ok {
			return Val{}, c.errf("bad float %s", n.V)
		}
		if want != nil && want.K == SFP {
			f, _ := r.Float64()
			return scalar(sortFP, fpLit(big.NewFloat(f))), nil
		}
		return scalar(sortReal, ratLit(r)), nil
	case EStr:
		return scalar(sortStr, x.strConst(n.V)), nil
	case ENil:
		if want != nil && want.K != SRef {
			return Val{}, c.errf("nil used as %s", want.SMT())
		}
		return scalar(sortRef, "0"), nil
	case EIdent:
		if v, ok := c.names[n.Name]; ok {
			return v, nil
		}
		if c.useLocals {
			if v, ok := c.lookupLocal(n.Name); ok {
				return v, nil
			}
		}
		if g, ok := x.w.specs.Ghosts[n.Name]; ok {
			s, err := x.specSort(g.Type)
			if err != nil {
				return Val{}, err
			}
			return scalar(s, x.heapGet(c.st, "G$"+n.Name, s)), nil
		}
		if n.Name == "now" {
			return scalar(sortInt, c.st.now), nil
		}
		if fn, ok := x.w.specs.Fns[n.Name]; ok && len(fn.Params) == 0 {
			return c.callSpecFn(fn, nil)
		}
		if x.rootFn != nil && x.rootFn.Pkg != nil {
			// a package-level variable of the package of the function under verification
			if g, ok := x.rootFn.Pkg.Members[n.Name].(*ssa.Global); ok {
				return x.loadAtQuiet(c.st, x.globalAddr(g)), nil
			}
		}
		if v, ok := x.atCallArgs[n.Name]; ok {
			// inside an `at call` clause: a parameter name of the callee denotes the argument passed
			return v, nil
		}
		return Val{}, c.errf("unknown identifier %q", n.Name)
	case EUnary:
		switch n.Op {
		case "!":
			v, err := c.eval(n.X, sortBool)
			if err != nil {
				return Val{}, err
			}
			if len(v.L) != 1 || v.S[0].K != SBool {
				return Val{}, c.errf("! on non-bool")
			}
			return boolVal(not(v.One())), nil
		case "-":
			v, err := c.eval(n.X, want)
			if err != nil {
				return Val{}, err
			}
			s := v.S[0]
			switch s.K {
			case SBV:
				return scalar(s, "(bvneg "+v.One()+")"), nil
			case SFP:
				return scalar(s, "(fp.neg "+v.One()+")"), nil
			}
			if l, ok := isLit(v.One()); ok {
				return scalar(s, intLit(new(big.Int).Neg(l))), nil
			}
			return scalar(s, "(- "+v.One()+")"), nil
		case "^":
			v, err := c.eval(n.X, want)
			if err != nil {
				return Val{}, err
			}
			if v.S[0].K == SBV {
				return scalar(v.S[0], "(bvnot "+v.One()+")"), nil
			}
			return scalar(v.S[0], "(- (- "+v.One()+") 1)"), nil
		}
	case EBin:
		return c.evalBin(n, want)
	case EQuant:
		cc := c.clone()
		var binders, ranges []string
		for _, qv := range n.Vars {
			s, err := x.specSort(qv.Type)
			if err != nil {
				return Val{}, err
			}
			nm := fmt.Sprintf("q!%s!%d", sanitize(qv.Name), x.nextID())
			binders = append(binders, "("+nm+" "+s.SMT()+")")
			ranges = append(ranges, rangeFact(s, nm))
			cc.names[qv.Name] = scalar(s, nm)
		}
		x.vc.inQuant++
		b, err := cc.eval(n.Body, sortBool)
		x.vc.inQuant--
		if err != nil {
			return Val{}, err
		}
		if len(b.L) != 1 || b.S[0].K != SBool {
			return Val{}, c.errf("quantifier body is not boolean")
		}
		if n.Forall {
			return boolVal("(forall (" + strings.Join(binders, " ") + ") " + implies(and(ranges...), b.One()) + ")"), nil
		}
		return boolVal("(exists (" + strings.Join(binders, " ") + ") " + and(and(ranges...), b.One()) + ")"), nil
	case ECall:
		return c.evalCall(n, want)
	case ESel:
		// ghost qualified names / struct field through pointer or value
		xv, err := c.eval(n.X, nil)
		if err != nil {
			// pkg.Name: a package-level variable of another package (io.EOF), when `pkg` names nothing else
			if id, ok := n.X.(EIdent); ok && strings.Contains(err.Error(), "unknown identifier") && c.x.w.prog != nil {
				var found *ssa.Global
				for _, p := range c.x.w.prog.AllPackages() {
					if p.Pkg.Name() == id.Name {
						if g, ok := p.Members[n.F].(*ssa.Global); ok {
							if found != nil && found != g {
								return Val{}, c.errf("ambiguous package name %q for %s.%s", id.Name, id.Name, n.F)
							}
							found = g
						}
					}
				}
				if found != nil {
					return c.x.loadAtQuiet(c.st, c.x.globalAddr(found)), nil
				}
			}
			return Val{}, err
		}
		return c.selectField(xv, n.F)
	case EIndex:
		xv, err := c.eval(n.X, nil)
		if err != nil {
			return Val{}, err
		}
		return c.index(xv, n.I)
	case EUpd:
		xv, err := c.eval(n.X, nil)
		if err != nil {
			return Val{}, err
		}
		if len(xv.L) != 1 || xv.S[0].K != SArr {
			return Val{}, c.errf("update of non-array")
		}
		iv, err := c.eval(n.I, xv.S[0].Key)
		if err != nil {
			return Val{}, err
		}
		vv, err := c.eval(n.V, xv.S[0].Val)
		if err != nil {
			return Val{}, err
		}
		return scalar(xv.S[0], "(store "+xv.One()+" "+iv.One()+" "+vv.One()+")"), nil
	}
	return Val{}, c.errf("cannot evaluate %s", e.String())
}

func (x *Exec) nextID() int { x.cellN++; return x.cellN }

func (c *EvalCtx) coerce(a, b Val) (Val, Val, error) {
	if len(a.L) != 1 || len(b.L) != 1 {
		return a, b, nil
	}
	sa, sb := a.S[0], b.S[0]
	if sa.K == SBV && sb.K == SBV && sa.Bits != sb.Bits {
		if sa.Bits < sb.Bits {
			a = scalar(&Sort{K: SBV, Bits: sb.Bits, Signed: sa.Signed}, c.x.bvResize(a.One(), sa, sb.Bits, false))
		} else {
			b = scalar(&Sort{K: SBV, Bits: sa.Bits, Signed: sb.Signed}, c.x.bvResize(b.One(), sb, sa.Bits, false))
		}
	}
	if sa.K == SInt && sb.K == SReal {
		a = scalar(sortReal, "(to_real "+a.One()+")")
	}
	if sa.K == SReal && sb.K == SInt {
		b = scalar(sortReal, "(to_real "+b.One()+")")
	}
	if (sa.K == SRef && sb.K == SInt) || (sa.K == SInt && sb.K == SRef) {
		return a, b, nil
	}
	if a.S[0].K != b.S[0].K {
		return a, b, c.errf("sort mismatch %s vs %s", a.S[0].SMT(), b.S[0].SMT())
	}
	return a, b, nil
}

func isLiteral(e Expr) bool {
	switch n := e.(type) {
	case EInt, EFloat, ENil:
		return true
	case EUnary:
		return n.Op == "-" && isLiteral(n.X)
	}
	return false
}

var goTok = map[string]token.Token{"+": token.ADD, "-": token.SUB, "*": token.MUL, "/": token.QUO, "%": token.REM,
	"&": token.AND, "|": token.OR, "^": token.XOR, "&^": token.AND_NOT, "<<": token.SHL, ">>": token.SHR,
	"==": token.EQL, "!=": token.NEQ, "<": token.LSS, "<=": token.LEQ, ">": token.GTR, ">=": token.GEQ}

func (c *EvalCtx) evalBin(n EBin, want *Sort) (Val, error) {
	x := c.x
	switch n.Op {
	case "&&", "||", "==>", "<==>":
		a, err := c.eval(n.X, sortBool)
		if err != nil {
			return Val{}, err
		}
		b, err := c.eval(n.Y, sortBool)
		if err != nil {
			return Val{}, err
		}
		if len(a.L) != 1 || len(b.L) != 1 || a.S[0].K != SBool || b.S[0].K != SBool {
			return Val{}, c.errf("boolean operator %s on non-bool in %s", n.Op, n.String())
		}
		switch n.Op {
		case "&&":
			return boolVal(and(a.One(), b.One())), nil
		case "||":
			return boolVal(or(a.One(), b.One())), nil
		case "==>":
			return boolVal(implies(a.One(), b.One())), nil
		default:
			return boolVal(eq(a.One(), b.One())), nil
		}
	}
	var a, b Val
	var err error
	hint := want
	if n.Op == "==" || n.Op == "!=" || n.Op == "<" || n.Op == "<=" || n.Op == ">" || n.Op == ">=" {
		hint = nil
	}
	if isLiteral(n.X) && !isLiteral(n.Y) {
		b, err = c.eval(n.Y, hint)
		if err != nil {
			return Val{}, err
		}
		h := hint
		if len(b.S) == 1 {
			h = b.S[0]
		}
		if n.Op == "<<" || n.Op == ">>" {
			h = hint
		}
		a, err = c.eval(n.X, h)
	} else {
		a, err = c.eval(n.X, hint)
		if err != nil {
			return Val{}, err
		}
		h := hint
		if len(a.S) == 1 {
			h = a.S[0]
		}
		b, err = c.eval(n.Y, h)
	}
	if err != nil {
		return Val{}, err
	}
	if n.Op == "==" || n.Op == "!=" {
		if len(a.L) != len(b.L) {
			// comparison with nil of composite (slice/interface)
			if len(b.L) == 1 && b.L[0] == "0" {
				t := eq(a.L[0], "0")
				if n.Op == "!=" {
					t = not(t)
				}
				return boolVal(t), nil
			}
			return Val{}, c.errf("comparison of different shapes in %s", n.String())
		}
		if len(a.L) > 1 {
			var es []string
			for k := range a.L {
				es = append(es, eq(a.L[k], b.L[k]))
			}
			t := and(es...)
			if n.Op == "!=" {
				t = not(t)
			}
			return boolVal(t), nil
		}
	}
	if len(a.L) != 1 || len(b.L) != 1 {
		return Val{}, c.errf("operator %s on composite value in %s", n.Op, n.String())
	}
	if n.Op != "<<" && n.Op != ">>" {
		a, b, err = c.coerce(a, b)
		if err != nil {
			return Val{}, fmt.Errorf("%v in %s", err, n.String())
		}
	}
	s := a.S[0]
	if s.K == SInt {
		// spec arithmetic on mathematical integers: no wrap
		s = &Sort{K: SInt, Bits: 0, Signed: true}
		switch n.Op {
		case "<<", ">>", "&", "|", "^", "&^":
			s = a.S[0]
			if s.Bits == 0 {
				s = &Sort{K: SInt, Bits: 0, Signed: true}
			}
		}
	}
	if s.K == SRef {
		s = sortInt
	}
	t, rs := x.binop(goTok[n.Op], a.One(), b.One(), s, b.S[0])
	if rs.K == SInt && s.Bits == 0 {
		rs = sortInt
	}
	return scalar(rs, t), nil
}

func (c *EvalCtx) selectField(xv Val, f string) (Val, error) {
	x := c.x
	if xv.GT == nil {
		return Val{}, c.errf("field %s of a non-Go value", f)
	}
	t := xv.GT
	if p, ok := t.Underlying().(*types.Pointer); ok {
		su, ok := p.Elem().Underlying().(*types.Struct)
		if !ok {
			return Val{}, c.errf("field %s through pointer to non-struct", f)
		}
		idx, path := findField(su, f)
		if idx < 0 {
			return Val{}, c.errf("no field %s in %s", f, p.Elem())
		}
		_ = path
		return x.loadAtQuiet(c.st, Addr{K: AKField, Ref: xv.One(), ST: p.Elem(), Field: idx, T: su.Field(idx).Type()}), nil
	}
	if su, ok := t.Underlying().(*types.Struct); ok {
		idx, _ := findField(su, f)
		if idx < 0 {
			return Val{}, c.errf("no field %s in %s", f, t)
		}
		lo, hi := x.fieldRange(su, idx)
		return Val{GT: su.Field(idx).Type(), S: xv.S[lo:hi], L: xv.L[lo:hi]}, nil
	}
	return Val{}, c.errf("field %s of %s", f, t)
}

func findField(su *types.Struct, f string) (int, []int) {
	for i := 0; i < su.NumFields(); i++ {
		if su.Field(i).Name() == f {
			return i, nil
		}
	}
	return -1, nil
}

// loadAtQuiet reads memory without adding facts to the path condition
// (contract evaluation must not change the state).
func (x *Exec) loadAtQuiet(st *State, a Addr) Val {
	tmp := &State{pc: st.pc, cells: st.cells, heap: st.heap, now: st.now}
	v := x.loadAt(tmp, a)
	return v
}

func (c *EvalCtx) index(xv Val, ie Expr) (Val, error) {
	x := c.x
	if len(xv.L) == 1 && xv.S[0].K == SArr {
		iv, err := c.eval(ie, xv.S[0].Key)
		if err != nil {
			return Val{}, err
		}
		k := iv.One()
		if iv.S[0].K != xv.S[0].Key.K && !(iv.S[0].K == SInt && xv.S[0].Key.K == SRef) && !(iv.S[0].K == SRef && xv.S[0].Key.K == SInt) {
			return Val{}, c.errf("index sort mismatch")
		}
		return scalar(xv.S[0].Val, "(select "+xv.One()+" "+k+")"), nil
	}
	if xv.GT == nil {
		return Val{}, c.errf("index of non-array spec value")
	}
	switch t := xv.GT.Underlying().(type) {
	case *types.Slice:
		iv, err := c.eval(ie, x.idxSort())
		if err != nil {
			return Val{}, err
		}
		idx := x.convert(iv.One(), iv.S[0], x.idxSort())
		return x.loadAtQuiet(c.st, Addr{K: AKElem, Ref: xv.L[0], Idx: x.add(xv.L[1], idx, x.idxSort()), T: t.Elem()}), nil
	case *types.Map:
		dom, ds, vals, vs, ok := x.mapArrs(t)
		_ = dom
		_ = ds
		if !ok {
			return Val{}, c.errf("map with composite key")
		}
		kv, err := c.eval(ie, x.layout(t.Key())[0])
		if err != nil {
			return Val{}, err
		}
		out := Val{GT: t.Elem()}
		for k, s := range x.layout(t.Elem()) {
			out.S = append(out.S, s)
			out.L = append(out.L, "(select (select "+x.heapGet(c.st, vals[k], vs[k])+" "+xv.One()+") "+kv.One()+")")
		}
		return out, nil
	case *types.Basic:
		if t.Info()&types.IsString != 0 {
			iv, err := c.eval(ie, sortInt)
			if err != nil {
				return Val{}, err
			}
			return scalar(&Sort{K: SInt, Bits: 8}, "(str.at "+xv.One()+" "+iv.One()+")"), nil
		}
	}
	return Val{}, c.errf("cannot index %s", xv.GT)
}

func (c *EvalCtx) evalCall(n ECall, want *Sort) (Val, error) {
	x := c.x
	arg := func(i int, w *Sort) (Val, error) {
		if i >= len(n.Args) {
			return Val{}, c.errf("%s: missing argument %d", n.Fn, i)
		}
		return c.eval(n.Args[i], w)
	}
	switch n.Fn {
	case "old":
		if c.old == nil {
			return Val{}, c.errf("old() not available here")
		}
		cc := c.clone()
		cc.st = c.old
		cc.useLocals = false
		if c.oldNames != nil {
			for k, v := range c.oldNames {
				cc.names[k] = v
			}
		}
		return cc.eval(n.Args[0], want)
	case "len", "cap":
		v, err := arg(0, nil)
		if err != nil {
			return Val{}, err
		}
		if v.GT == nil {
			return Val{}, c.errf("len of spec value")
		}
		switch t := v.GT.Underlying().(type) {
		case *types.Slice:
			if n.Fn == "len" {
				return scalar(v.S[2], v.L[2]), nil
			}
			return scalar(v.S[3], v.L[3]), nil
		case *types.Basic:
			return scalar(x.idxSort(), x.strLen(v.One())), nil
		case *types.Array:
			return scalar(x.idxSort(), x.numLit(big.NewInt(t.Len()), x.idxSort())), nil
		case *types.Map:
			x.uf("map.card", "((Array Int Bool)) Int")
			return Val{}, c.errf("len(map) not supported in contracts")
		}
		return Val{}, c.errf("len of %s", v.GT)
	case "ite":
		cv, err := arg(0, sortBool)
		if err != nil {
			return Val{}, err
		}
		a, err := arg(1, want)
		if err != nil {
			return Val{}, err
		}
		b, err := arg(2, a.S[0])
		if err != nil {
			return Val{}, err
		}
		a, b, err = c.coerce(a, b)
		if err != nil {
			return Val{}, err
		}
		return scalar(a.S[0], ite(cv.One(), a.One(), b.One())), nil
	case "elems":
		v, err := arg(0, nil)
		if err != nil {
			return Val{}, err
		}
		sl, ok := v.GT.Underlying().(*types.Slice)
		if !ok {
			return Val{}, c.errf("elems of non-slice")
		}
		es := x.layout(sl.Elem())
		if len(es) != 1 {
			return Val{}, c.errf("elems of slice with composite elements")
		}
		name, as := x.elemArr(sl.Elem(), 0, es[0])
		return scalar(as.Val, "(select "+x.heapGet(c.st, name, as)+" "+v.L[0]+")"), nil
	case "fieldarr":
		// fieldarr(p.f): the heap map holding field f of p's struct type (Array Ref T)
		sel, ok := n.Args[0].(ESel)
		if !ok {
			return Val{}, c.errf("fieldarr(p.f)")
		}
		pv, err := c.eval(sel.X, nil)
		if err != nil {
			return Val{}, err
		}
		pt, ok := pv.GT.Underlying().(*types.Pointer)
		if !ok {
			return Val{}, c.errf("fieldarr through non-pointer")
		}
		su, ok := pt.Elem().Underlying().(*types.Struct)
		if !ok {
			return Val{}, c.errf("fieldarr of non-struct")
		}
		idx, _ := findField(su, sel.F)
		if idx < 0 {
			return Val{}, c.errf("no field %s", sel.F)
		}
		ls := x.layout(su.Field(idx).Type())
		if len(ls) != 1 {
			return Val{}, c.errf("fieldarr of composite field")
		}
		as := refArr(ls[0])
		return scalar(as, x.heapGet(c.st, x.fieldArrName(pt.Elem(), idx, 0), as)), nil
	case "elemsk":
		// elemsk(s, k): the element array holding leaf k of the elements of slice s (interfaces: 0 = tag, 1 = payload)
		v, err := arg(0, nil)
		if err != nil {
			return Val{}, err
		}
		sl, ok := v.GT.Underlying().(*types.Slice)
		if !ok {
			return Val{}, c.errf("elemsk of non-slice")
		}
		kl, ok := n.Args[1].(EInt)
		if !ok {
			return Val{}, c.errf("elemsk(s, literal)")
		}
		var k int
		fmt.Sscanf(kl.V, "%d", &k)
		es := x.layout(sl.Elem())
		if k < 0 || k >= len(es) {
			return Val{}, c.errf("elemsk: leaf out of range")
		}
		name, as := x.elemArr(sl.Elem(), k, es[k])
		return scalar(as.Val, "(select "+x.heapGet(c.st, name, as)+" "+v.L[0]+")"), nil
	case "deref":
		// deref(p): the value a pointer to a non-struct value points to
		v, err := arg(0, nil)
		if err != nil {
			return Val{}, err
		}
		pt, ok := v.GT.(*types.Pointer)
		if !ok && v.GT != nil {
			pt, ok = v.GT.Underlying().(*types.Pointer)
		}
		if !ok || len(v.L) != 1 {
			return Val{}, c.errf("deref of a non-pointer")
		}
		return x.loadAtQuiet(c.st, Addr{K: AKPtr, Ref: v.L[0], T: pt.Elem()}), nil
	case "base":
		v, err := arg(0, nil)
		if err != nil {
			return Val{}, err
		}
		return scalar(sortRef, v.L[0]), nil
	case "off":
		v, err := arg(0, nil)
		if err != nil {
			return Val{}, err
		}
		if len(v.L) != 4 {
			return Val{}, c.errf("off of non-slice")
		}
		return scalar(v.S[1], v.L[1]), nil
	case "tag":
		v, err := arg(0, nil)
		if err != nil {
			return Val{}, err
		}
		if len(v.L) != 2 {
			return Val{}, c.errf("tag of non-interface")
		}
		return scalar(sortRef, v.L[0]), nil
	case "iref":
		v, err := arg(0, nil)
		if err != nil {
			return Val{}, err
		}
		if len(v.L) != 2 {
			return Val{}, c.errf("iref of non-interface")
		}
		return scalar(sortRef, v.L[1]), nil
	case "isnil":
		v, err := arg(0, nil)
		if err != nil {
			return Val{}, err
		}
		return boolVal(eq(v.L[0], "0")), nil
	case "fresh":
		v, err := arg(0, nil)
		if err != nil {
			return Val{}, err
		}
		if c.old == nil {
			return Val{}, c.errf("fresh() needs an old state")
		}
		x.birth()
		return boolVal(and("(> "+v.L[0]+" 0)", "(> (birth "+v.L[0]+") "+c.old.now+")")), nil
	case "ptr":
		// ptr(T, e): the reference e viewed as a *T (T a struct type of the contract's package)
		id, ok := n.Args[0].(EIdent)
		if !ok || len(n.Args) != 2 {
			return Val{}, c.errf("ptr(Type, ref)")
		}
		var t types.Type
		for _, p := range x.w.pkgs {
			if !inMod(p.PkgPath, modulePath) {
				continue
			}
			if o := p.Types.Scope().Lookup(id.Name); o != nil {
				if _, isT := o.(*types.TypeName); isT {
					t = o.Type()
					if x.cur != nil && x.cur.fn.Pkg != nil && x.cur.fn.Pkg.Pkg == p.Types {
						break
					}
				}
			}
		}
		if t == nil {
			return Val{}, c.errf("ptr: unknown type %s", id.Name)
		}
		v, err := arg(1, nil)
		if err != nil {
			return Val{}, err
		}
		return Val{GT: types.NewPointer(t), S: []*Sort{sortRef}, L: []string{v.L[0]}}, nil
	case "visited":
		// visited(k): key k has already been yielded by the map iteration of the loop being specified
		if x.curLoop == nil {
			return Val{}, c.errf("visited() outside a loop invariant")
		}
		rangeOf := func(l *loopRec) *ssa.Range {
			for _, in := range l.head.Instrs {
				if nx, ok := in.(*ssa.Next); ok && !nx.IsString {
					if r, ok := nx.Iter.(*ssa.Range); ok {
						if _, isMap := r.X.Type().Underlying().(*types.Map); isMap {
							return r
						}
					}
				}
			}
			return nil
		}
		rng := rangeOf(x.curLoop)
		if rng == nil && x.cur != nil {
			// not a map iteration itself: the innermost enclosing map iteration
			var best *loopRec
			for _, l := range x.cur.loopInfo {
				if l != x.curLoop && l.blocks[x.curLoop.head] && rangeOf(l) != nil {
					if best == nil || len(l.blocks) < len(best.blocks) {
						best = l
					}
				}
			}
			if best != nil {
				rng = rangeOf(best)
			}
		}
		if rng == nil {
			return Val{}, c.errf("visited(): the loop is not (inside) a map iteration")
		}
		vn, vs, ok := x.visitedName(rng)
		if !ok {
			return Val{}, c.errf("visited(): unsupported key type")
		}
		k, err := arg(0, vs.Key)
		if err != nil {
			return Val{}, err
		}
		return boolVal("(select " + x.heapGet(c.st, vn, vs) + " " + k.One() + ")"), nil
	case "ownfresh":
		// allocated by the activation under verification (still private to it), or nil
		v, err := arg(0, nil)
		if err != nil {
			return Val{}, err
		}
		x.birth()
		own := or(eq(v.L[0], "0"), "(> (birth "+v.L[0]+") "+x.entryNow+")")
		if x.allocHere[v.L[0]] {
			own = "true"
		}
		if x.rootSpec != nil && x.cur != nil {
			root := x.cur
			for root.caller != nil {
				root = root.caller
			}
			for _, p := range x.rootSpec.UnderConstruction {
				if pv, ok := root.params[p]; ok && len(pv.L) >= 1 {
					own = or(own, eq(v.L[0], pv.L[0]))
				}
			}
		}
		return boolVal(own), nil
	case "allocated":
		v, err := arg(0, nil)
		if err != nil {
			return Val{}, err
		}
		x.birth()
		return boolVal("(<= (birth " + v.L[0] + ") " + c.st.now + ")"), nil
	case "has":
		m, err := arg(0, nil)
		if err != nil {
			return Val{}, err
		}
		if len(m.L) == 1 && m.S[0].K == SArr {
			k, err := arg(1, m.S[0].Key)
			if err != nil {
				return Val{}, err
			}
			return boolVal("(select " + m.One() + " " + k.One() + ")"), nil
		}
		mt, ok := m.GT.Underlying().(*types.Map)
		if !ok {
			return Val{}, c.errf("has() on non-map")
		}
		dom, ds, _, _, ok := x.mapArrs(mt)
		if !ok {
			return Val{}, c.errf("map with composite key")
		}
		k, err := arg(1, x.layout(mt.Key())[0])
		if err != nil {
			return Val{}, err
		}
		return boolVal(and(not(eq(m.One(), "0")), "(select (select "+x.heapGet(c.st, dom, ds)+" "+m.One()+") "+k.One()+")")), nil
	case "addr":
		// addr(p, f): address of field f of the struct p points to (e.g. a mutex)
		v, err := arg(0, nil)
		if err != nil {
			return Val{}, err
		}
		id, ok := n.Args[1].(EIdent)
		if !ok {
			return Val{}, c.errf("addr(p, field)")
		}
		p, ok := v.GT.Underlying().(*types.Pointer)
		if !ok {
			return Val{}, c.errf("addr of non-pointer")
		}
		su := p.Elem().Underlying().(*types.Struct)
		idx, _ := findField(su, id.Name)
		if idx < 0 {
			return Val{}, c.errf("no field %s", id.Name)
		}
		return scalar(sortRef, x.subAddr(p.Elem(), idx, v.One())), nil
	case "real":
		v, err := arg(0, nil)
		if err != nil {
			return Val{}, err
		}
		return scalar(x.floatSort(), x.convert(v.One(), v.S[0], x.floatSort())), nil
	case "toint":
		v, err := arg(0, nil)
		if err != nil {
			return Val{}, err
		}
		return scalar(sortInt, x.convert(v.One(), v.S[0], sortInt)), nil
	case "int64", "uint64", "uint8", "byte", "int", "uint", "int32", "uint32", "uint16", "int16", "int8", "float64":
		s, _ := x.specSort(n.Fn)
		v, err := arg(0, nil)
		if err != nil {
			return Val{}, err
		}
		if v.S[0].K == SInt && v.S[0].Bits == 0 && s.K == SInt && s.Bits != 0 {
			// explicit conversion of a mathematical integer: Go's wrap-around
			if l, ok := isLit(v.One()); ok {
				lo, hi := rangeOf(s)
				if l.Cmp(lo) >= 0 && l.Cmp(hi) <= 0 {
					return scalar(s, v.One()), nil
				}
			}
			return scalar(s, x.wrap(v.One(), s)), nil
		}
		return scalar(s, x.convert(v.One(), v.S[0], s)), nil
	case "bits":
		// IEEE bits of a float (fp+bv mode): fresh b with to_fp(b) = x
		v, err := arg(0, nil)
		if err != nil {
			return Val{}, err
		}
		if v.S[0].K != SFP {
			x.uf("f64bits", "(Real) Int")
			return scalar(x.intSort(64, false), "(f64bits "+v.One()+")"), nil
		}
		return scalar(&Sort{K: SBV, Bits: 64}, x.fpBits(c.st, v.One())), nil
	case "frombits":
		v, err := arg(0, &Sort{K: SBV, Bits: 64})
		if err != nil {
			return Val{}, err
		}
		if v.S[0].K != SBV {
			x.uf("f64frombits", "(Int) Real")
			return scalar(sortReal, "(f64frombits "+v.One()+")"), nil
		}
		return scalar(sortFP, "((_ to_fp 11 53) "+v.One()+")"), nil
	case "isNaN":
		v, err := arg(0, nil)
		if err != nil {
			return Val{}, err
		}
		if v.S[0].K != SFP {
			return boolVal("false"), nil
		}
		return boolVal("(fp.isNaN " + v.One() + ")"), nil
	case "isInf":
		v, err := arg(0, nil)
		if err != nil {
			return Val{}, err
		}
		if v.S[0].K != SFP {
			return boolVal("false"), nil
		}
		return boolVal("(fp.isInfinite " + v.One() + ")"), nil
	case "isPosInf", "isNegInf":
		v, err := arg(0, nil)
		if err != nil {
			return Val{}, err
		}
		if v.S[0].K != SFP {
			return boolVal("false"), nil
		}
		sign := "fp.isPositive"
		if n.Fn == "isNegInf" {
			sign = "fp.isNegative"
		}
		return boolVal("(and (fp.isInfinite " + v.One() + ") (" + sign + " " + v.One() + "))"), nil
	case "isNegZero":
		v, err := arg(0, nil)
		if err != nil {
			return Val{}, err
		}
		return boolVal("(and (fp.isZero " + v.One() + ") (fp.isNegative " + v.One() + "))"), nil
	case "isPosZero":
		v, err := arg(0, nil)
		if err != nil {
			return Val{}, err
		}
		return boolVal("(and (fp.isZero " + v.One() + ") (fp.isPositive " + v.One() + "))"), nil
	case "select":
		a, err := arg(0, nil)
		if err != nil {
			return Val{}, err
		}
		return c.index(a, n.Args[1])
	case "constarr":
		if want == nil || want.K != SArr {
			return Val{}, c.errf("constarr needs array context")
		}
		v, err := arg(0, want.Val)
		if err != nil {
			return Val{}, err
		}
		return scalar(want, "((as const "+want.SMT()+") "+v.One()+")"), nil
	}
	if fn, ok := x.w.specs.Fns[n.Fn]; ok {
		var args []Val
		for i, p := range fn.Params {
			s, err := x.specSort(p.Type)
			if err != nil {
				return Val{}, err
			}
			a, err := arg(i, s)
			if err != nil {
				return Val{}, err
			}
			if len(a.L) != 1 {
				return Val{}, c.errf("spec fn %s: composite argument", n.Fn)
			}
			if a.S[0].K != s.K && !((a.S[0].K == SRef && s.K == SInt) || (a.S[0].K == SInt && s.K == SRef)) {
				if a.S[0].K == SInt && s.K == SReal {
					a = scalar(sortReal, "(to_real "+a.One()+")")
				} else {
					return Val{}, c.errf("spec fn %s: argument %d has sort %s, want %s", n.Fn, i, a.S[0].SMT(), s.SMT())
				}
			}
			if s.K == SBV && a.S[0].Bits != s.Bits {
				a = scalar(s, x.bvResize(a.One(), a.S[0], s.Bits, false))
			}
			args = append(args, scalar(s, a.One()))
		}
		return c.callSpecFn(fn, args)
	}
	return Val{}, c.errf("unknown function %s in contract", n.Fn)
}

func (c *EvalCtx) callSpecFn(fn *SpecFn, args []Val) (Val, error) {
	x := c.x
	rs, err := x.specSort(fn.Ret)
	if err != nil {
		return Val{}, err
	}
	if fn.Body == nil || fn.Rec {
		// uninterpreted or recursive: declare in the prelude
		name := "spec$" + fn.Name
		var ps []string
		var as []string
		for i, p := range fn.Params {
			s, _ := x.specSort(p.Type)
			ps = append(ps, s.SMT())
			as = append(as, args[i].One())
		}
		if fn.Body == nil {
			if _, seen := x.vc.prelude[name]; !seen {
				x.vc.DeclareRaw(name, "(declare-fun "+name+" ("+strings.Join(ps, " ")+") "+rs.SMT()+")")
				// assumed axioms that mention this uninterpreted function come along with it
				for _, ax := range x.w.specs.Axioms {
					if strings.Contains(ax.Src, fn.Name+"(") {
						ac := &EvalCtx{x: x, names: map[string]Val{}, st: c.st}
						x.vc.inQuant++
						v, err := ac.eval(ax.E, sortBool)
						x.vc.inQuant--
						if err == nil && len(v.L) == 1 {
							x.vc.AddAxiom("axiom."+ax.Name, "(assert "+v.One()+")", name)
							x.trusted["axiom "+ax.Name] = true
						}
					}
				}
			}
		} else {
			if _, ok := x.vc.prelude[name]; !ok && !x.recBusy[name] {
				if x.recBusy == nil {
					x.recBusy = map[string]bool{}
				}
				x.recBusy[name] = true
				cc := &EvalCtx{x: x, names: map[string]Val{}, st: c.st}
				var binders []string
				for _, p := range fn.Params {
					s, _ := x.specSort(p.Type)
					bn := "p!" + sanitize(p.Name)
					binders = append(binders, "("+bn+" "+s.SMT()+")")
					cc.names[p.Name] = scalar(s, bn)
				}
				x.vc.inQuant++
				b, err := cc.eval(fn.Body, rs)
				x.vc.inQuant--
				delete(x.recBusy, name)
				if err != nil {
					return Val{}, fmt.Errorf("spec fn %s: %v", fn.Name, err)
				}
				// dependencies were declared while evaluating the body: register afterwards
				x.vc.DeclareRaw(name, "(define-fun-rec "+name+" ("+strings.Join(binders, " ")+") "+rs.SMT()+" "+b.One()+")")
			}
		}
		if len(as) == 0 {
			return scalar(rs, name), nil
		}
		return scalar(rs, "("+name+" "+strings.Join(as, " ")+")"), nil
	}
	if c.depth > 40 {
		return Val{}, c.errf("spec fn expansion too deep (mark %s rec)", fn.Name)
	}
	cc := &EvalCtx{x: x, names: map[string]Val{}, st: c.st, old: c.old, depth: c.depth + 1}
	for i, p := range fn.Params {
		// share argument terms
		s := args[i].S[0]
		cc.names[p.Name] = scalar(s, x.vc.Define("a."+p.Name, s, args[i].One()))
	}
	b, err := cc.eval(fn.Body, rs)
	if err != nil {
		return Val{}, fmt.Errorf("spec fn %s: %v", fn.Name, err)
	}
	if len(b.L) != 1 {
		return Val{}, c.errf("spec fn %s: composite body", fn.Name)
	}
	if b.S[0].K != rs.K {
		if b.S[0].K == SInt && rs.K == SReal {
			return scalar(rs, "(to_real "+b.One()+")"), nil
		}
		return Val{}, c.errf("spec fn %s: body sort %s, declared %s", fn.Name, b.S[0].SMT(), rs.SMT())
	}
	return scalar(rs, b.One()), nil
}

// fpBits: bit pattern of a non-NaN double.
func (x *Exec) fpBits(st *State, f string) string {
	if b, ok := x.fpBitsMemo[f]; ok {
		return b
	}
	b := x.vc.Declare("fbits", &Sort{K: SBV, Bits: 64})
	x.vc.AddAxiom("fbits."+b, "(assert (= ((_ to_fp 11 53) "+b+") "+f+"))", b)
	x.fpBitsMemo[f] = b
	if x.vc.fpBits == nil {
		x.vc.fpBits = map[string]string{}
	}
	x.vc.fpBits[f] = b // replays read the bit pattern the path actually used (matters for NaNs)
	return b
}

// ---- entry points used by the executor ----

func (x *Exec) ctxFor(fr *Frame, st *State) *EvalCtx {
	c := &EvalCtx{x: x, fr: fr, names: map[string]Val{}, st: st, useLocals: true}
	if fr != nil {
		c.old = fr.entry
		c.oldNames = fr.params
		// parameters that are never re-assigned keep their entry value; locals shadow by useLocals
		for k, v := range fr.params {
			c.names["old$"+k] = v
		}
		if fr.fn != nil {
			c.pos = x.curPos
		}
	}
	return c
}

func (x *Exec) evalExpr(fr *Frame, st *State, e Expr) (Val, error) {
	c := x.ctxFor(fr, st)
	// in loop invariants identifiers denote current local values; fall back to params
	for k, v := range fr.params {
		if _, ok := c.lookupLocal(k); !ok {
			c.names[k] = v
		}
	}
	return c.eval(e, nil)
}

func (x *Exec) evalBool(fr *Frame, st *State, e Expr) (string, error) {
	v, err := x.evalExpr(fr, st, e)
	if err != nil {
		return "", err
	}
	if len(v.L) != 1 || v.S[0].K != SBool {
		return "", fmt.Errorf("not a boolean: %s", e.String())
	}
	return v.One(), nil
}

// evalBoolOld evaluates over entry values of the parameters only.
func (x *Exec) evalBoolOld(fr *Frame, st *State, e Expr) (string, error) {
	c := &EvalCtx{x: x, names: map[string]Val{}, st: fr.entry, old: fr.entry, oldNames: fr.params}
	for k, v := range fr.params {
		c.names[k] = v
	}
	v, err := c.eval(e, sortBool)
	if err != nil {
		return "", err
	}
	if len(v.L) != 1 || v.S[0].K != SBool {
		return "", fmt.Errorf("not a boolean: %s", e.String())
	}
	return v.One(), nil
}
