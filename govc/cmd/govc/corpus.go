package main

import (
	"encoding/json"
	"fmt"
	"os"
	"os/exec"
	"path/filepath"
	"sort"
	"strings"
	"time"
)

// Thorough tier only: the checker is run against deliberately changed copies of /repo.
//
//   must-fail: every seeded change of this property under /verif/seeded (patch.diff + meta.json)
//              is applied to a scratch copy; the quick check must report a violation there.
//   benign:    a comment line is inserted after the package clause of every non-test Go file of
//              the module (all positions shift by one line, nothing else changes); the quick
//              check must stay silent.
//
// Results go to the evidence file ("must_fail_corpus", "benign_corpus"). A seed that is not caught
// or a benign edit that raises an alarm is printed as SELFTEST line; it says something about the
// checker, not about /repo, so it never produces a VIOLATION line.

type corpusResult struct {
	Name     string  `json:"name"`
	Kind     string  `json:"kind"`
	Expected string  `json:"expected"`
	Observed string  `json:"observed"`
	Change   string  `json:"change,omitempty"`
	Detail   string  `json:"detail,omitempty"`
	WallS    float64 `json:"wall_s"`
}

var corpusResults []corpusResult

func copyRepo(dst string) error {
	if err := os.MkdirAll(dst, 0o755); err != nil {
		return err
	}
	cmd := exec.Command("rsync", "-a", "--exclude", ".git", repoDir()+"/", dst+"/")
	out, err := cmd.CombinedOutput()
	if err != nil {
		return fmt.Errorf("rsync: %v %s", err, out)
	}
	return nil
}

func runSelf(id, repo string) (int, string) {
	self, err := os.Executable()
	if err != nil {
		self = "/verif/bin/govc"
	}
	cmd := exec.Command(self, "check", id, "--tier", "quick")
	cmd.Env = append(os.Environ(), "VERIF_REPO="+repo, "VERIF_OUT="+filepath.Join(repo, "_verifout"), "VERIF_TIER=quick", "VERIF_NO_CORPUS=1")
	out, err := cmd.CombinedOutput()
	code := 0
	if err != nil {
		if ee, ok := err.(*exec.ExitError); ok {
			code = ee.ExitCode()
		} else {
			code = -1
		}
	}
	var viol []string
	for _, l := range strings.Split(string(out), "\n") {
		if strings.HasPrefix(l, "VIOLATION") {
			if i := strings.Index(l, "obligation="); i >= 0 {
				l = l[i:]
			}
			if len(l) > 220 {
				l = l[:220]
			}
			viol = append(viol, l)
		}
	}
	if len(viol) > 3 {
		viol = viol[:3]
	}
	return code, strings.Join(viol, " | ")
}

func runCorpus(id string) {
	if os.Getenv("VERIF_NO_CORPUS") != "" || os.Getenv("VERIF_REPO") != "" {
		return
	}
	root := filepath.Join(envOr("VERIF_SCRATCH", "/var/tmp"), fmt.Sprintf("govc-corpus-%d", os.Getpid()))
	defer os.RemoveAll(root)
	// must-fail
	metas, _ := filepath.Glob(filepath.Join(verifDir(), "seeded", "*", "meta.json"))
	sort.Strings(metas)
	for _, m := range metas {
		var meta struct {
			Property    string `json:"property"`
			Change      string `json:"change"`
			CheckResult string `json:"check_result"`
		}
		b, err := os.ReadFile(m)
		if err != nil || json.Unmarshal(b, &meta) != nil || meta.Property != id {
			continue
		}
		t0 := time.Now()
		dir := filepath.Dir(m)
		res := corpusResult{Name: "seeded/" + filepath.Base(dir), Kind: "must-fail", Expected: "violation", Change: meta.Change}
		if strings.HasPrefix(meta.CheckResult, "MISSED") {
			res.Expected = "missed (clause not decided, see meta.json)"
		}
		scratch := filepath.Join(root, "mf-"+filepath.Base(dir))
		if err := copyRepo(scratch); err != nil {
			res.Observed = "scratch copy failed: " + err.Error()
		} else {
			p := exec.Command("patch", "-p1", "-s", "-i", filepath.Join(dir, "patch.diff"))
			p.Dir = scratch
			if out, err := p.CombinedOutput(); err != nil {
				res.Observed = "patch does not apply: " + truncate(string(out), 200)
			} else {
				code, detail := runSelf(id, scratch)
				res.Detail = detail
				switch code {
				case 1:
					res.Observed = "violation"
				case 0:
					res.Observed = "no violation"
				default:
					res.Observed = fmt.Sprintf("exit %d", code)
				}
			}
		}
		os.RemoveAll(scratch)
		res.WallS = round3(time.Since(t0).Seconds())
		corpusResults = append(corpusResults, res)
		if res.Expected == "violation" && res.Observed != "violation" {
			fmt.Printf("SELFTEST: property=%s seeded change %s is no longer caught (%s)\n", id, res.Name, res.Observed)
		}
	}
	// benign: shift every line
	{
		t0 := time.Now()
		res := corpusResult{Name: "line-shift", Kind: "benign", Expected: "no violation", Change: "a comment line inserted after the package clause of every non-test .go file"}
		scratch := filepath.Join(root, "benign-shift")
		if err := copyRepo(scratch); err != nil {
			res.Observed = "scratch copy failed: " + err.Error()
		} else {
			n := 0
			filepath.Walk(scratch, func(p string, info os.FileInfo, err error) error {
				if err != nil || info.IsDir() || !strings.HasSuffix(p, ".go") || strings.HasSuffix(p, "_test.go") || strings.Contains(p, "_verifout") {
					return nil
				}
				b, err := os.ReadFile(p)
				if err != nil {
					return nil
				}
				lines := strings.Split(string(b), "\n")
				for i, l := range lines {
					if strings.HasPrefix(l, "package ") {
						lines = append(lines[:i+1], append([]string{"// (line inserted by the benign-edit self-test)"}, lines[i+1:]...)...)
						n++
						break
					}
				}
				os.WriteFile(p, []byte(strings.Join(lines, "\n")), info.Mode())
				return nil
			})
			code, detail := runSelf(id, scratch)
			res.Detail = fmt.Sprintf("%d files edited; %s", n, detail)
			if code == 0 {
				res.Observed = "no violation"
			} else {
				res.Observed = fmt.Sprintf("exit %d", code)
			}
		}
		os.RemoveAll(scratch)
		res.WallS = round3(time.Since(t0).Seconds())
		corpusResults = append(corpusResults, res)
		if res.Observed != "no violation" {
			fmt.Printf("SELFTEST: property=%s the benign line-shift edit raises an alarm (%s)\n", id, res.Detail)
		}
	}
}
