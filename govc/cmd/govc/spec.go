package main

// Contract files. For bluge functions: comment-only Go files
// /repo/<pkg>/verif_contracts.go (build tag verif) whose `//@` lines carry the
// clauses. For dependencies / stdlib: /verif/contracts/ext/*.spec, same grammar
// without the `//@` prefix; everything in an ext file is ASSUMED, never proved.

import (
	"fmt"
	"os"
	"path/filepath"
	"regexp"
	"sort"
	"strconv"
	"strings"
)

type Clause struct {
	Label string
	Src   string
	E     Expr
	Props []string // restrict clause to these properties (empty = all of the func's)
}

func (c Clause) Name() string {
	if c.Label != "" {
		return c.Label
	}
	return c.Src
}

type LoopSpec struct {
	Invariants []Clause
	Decreases  *Clause
	Infer      bool
}

type AtCall struct {
	Callee string // suffix match on callee name
	Assert *Clause
	Assume *Clause
}

type FuncSpec struct {
	Key      string // full key: pkgpath.[Recv.]Name
	Params   []string
	Results  []string
	Props    []string
	BV, FP   bool
	Requires []Clause
	Ensures  []Clause
	Exits    []Clause // assertions at every return, may mention local variables (current values)
	GhostParams []QVar // logical variables: universally quantified inputs of the function's VC
	Effects  []Clause // definitional ghost updates: assumed at call sites, not checked against the body
	Modifies []string
	Loops    map[int]*LoopSpec
	NoPanic  bool
	Inline   bool
	Pure     bool
	Ext      bool // from an ext file: assumed
	Unroll   int
	Overflow bool
	Fresh    bool // result is freshly allocated
	AtCalls  []AtCall
	Panics   []Clause // panics_if
	File     string
	Line     int
	InferAll bool
	Opaque   bool // never inline, no contract: result arbitrary (explicit)
	Lockset  bool
	AssumeFrame bool // the modifies clause is used by callers but not checked against the body (listed)
	Borrows  [][2]string // results of calls to [0] must not be used after a call to [1]
	AllocBudget *Clause // every make() in the function (and inlined callees) must stay within this size
	Trusted  bool // bluge function whose contract is assumed at call sites; body not verified (listed)
	Iface    bool // contract of an interface method of bluge: assumed at invoke sites
	Decreases *Clause
}

type SpecFn struct {
	Name    string
	Params  []QVar
	Ret     string
	Body    Expr // nil => uninterpreted
	Src     string
	Rec     bool
	BV, FP  bool
	File    string
}

type Lemma struct {
	Name   string
	Props  []string
	BV, FP bool
	E      Expr
	Src    string
	File   string
	Uses   []string // names of axioms/lemmas to assume
}

type GhostVar struct {
	Name string
	Type string
	File string
}

type TypeSpec struct {
	Key       string // pkgpath.T
	GuardedBy map[string][]string // lock field -> fields
	Atomic    []string
	Props     []string
	Invariant []Clause
	File      string
}

type Axiom struct {
	Name string
	E    Expr
	Src  string
	File string
	BV   bool
}

type Specs struct {
	Funcs  map[string]*FuncSpec
	Fns    map[string]*SpecFn
	Lemmas []*Lemma
	Ghosts map[string]*GhostVar
	Types  map[string]*TypeSpec
	Axioms []*Axiom
	Files  []string
	// field contracts: pkgpath.T.field -> key of a FuncSpec
	FieldContracts map[string]string
}

func NewSpecs() *Specs {
	return &Specs{Funcs: map[string]*FuncSpec{}, Fns: map[string]*SpecFn{}, Ghosts: map[string]*GhostVar{}, Types: map[string]*TypeSpec{}, FieldContracts: map[string]string{}}
}

var contEnd = []string{"&&", "||", "==>", "<==>", "::", "(", ",", "+", "=", "-", "*"}

// logicalLines joins continuation lines and drops comments/blank lines.
func logicalLines(raw []string) (out []string, nums []int) {
	cur := ""
	curN := 0
	for i, l := range raw {
		if k := strings.Index(l, " // "); k >= 0 {
			l = l[:k]
		}
		t := strings.TrimSpace(l)
		if t == "" || strings.HasPrefix(t, "#") || strings.HasPrefix(t, "// ") {
			continue
		}
		if cur == "" {
			cur = t
			curN = i + 1
		} else {
			cur += " " + t
		}
		cont := false
		for _, e := range contEnd {
			if strings.HasSuffix(cur, e) {
				cont = true
			}
		}
		if !cont {
			out = append(out, cur)
			nums = append(nums, curN)
			cur = ""
		}
	}
	if cur != "" {
		out = append(out, cur)
		nums = append(nums, curN)
	}
	return
}

var labelRe = regexp.MustCompile(`^\[([^\]]+)\]\s*(.*)$`)
var propsRe = regexp.MustCompile(`^\{([C0-9 ,]+)\}\s*(.*)$`)

func parseClause(s string) (Clause, error) {
	c := Clause{}
	s = strings.TrimSpace(s)
	if m := propsRe.FindStringSubmatch(s); m != nil {
		c.Props = strings.FieldsFunc(m[1], func(r rune) bool { return r == ' ' || r == ',' })
		s = m[2]
	}
	if m := labelRe.FindStringSubmatch(s); m != nil {
		c.Label = m[1]
		s = m[2]
	}
	c.Src = s
	e, err := ParseExpr(s)
	if err != nil {
		return c, err
	}
	c.E = e
	return c, nil
}

var funcHdr = regexp.MustCompile(`^func\s+(?:\(\s*\*?\s*([A-Za-z0-9_./]+)\s*\)\s*)?([A-Za-z0-9_./$*()]+?)\s*(?:\(([^)]*)\))?\s*(?:\(([^)]*)\))?\s*$`)

func splitNames(s string) []string {
	var out []string
	for _, f := range strings.Split(s, ",") {
		f = strings.TrimSpace(f)
		if f == "" {
			continue
		}
		out = append(out, strings.Fields(f)[0])
	}
	return out
}

// ParseSpecLines parses one contract source. pkgPath is the package that
// unqualified names belong to ("" for ext files, which use full paths).
func (sp *Specs) ParseSpecLines(file string, raw []string, pkgPath string, ext bool) error {
	lines, nums := logicalLines(raw)
	var curF *FuncSpec
	var curLoop *LoopSpec
	var curT *TypeSpec
	fileProps := []string{}
	errf := func(i int, f string, a ...interface{}) error {
		return fmt.Errorf("%s:%d: %s", file, nums[i], fmt.Sprintf(f, a...))
	}
	qual := func(n string) string {
		if pkgPath == "" || strings.Contains(n, "/") || (strings.Count(n, ".") >= 1 && ext) {
			return n
		}
		return pkgPath + "." + n
	}
	for i, l := range lines {
		kw := strings.Fields(l)[0]
		rest := strings.TrimSpace(l[len(kw):])
		switch kw {
		case "fileprops":
			fileProps = strings.Fields(rest)
		case "func":
			m := funcHdr.FindStringSubmatch(l)
			if m == nil {
				return errf(i, "bad func header %q", l)
			}
			name := m[2]
			if m[1] != "" {
				name = m[1] + "." + name
			}
			curF = &FuncSpec{Key: qual(name), Loops: map[int]*LoopSpec{}, Ext: ext, File: file, Line: nums[i], Props: append([]string{}, fileProps...)}
			curF.Params = splitNames(m[3])
			curF.Results = splitNames(m[4])
			if _, dup := sp.Funcs[curF.Key]; dup {
				return errf(i, "duplicate contract for %s", curF.Key)
			}
			sp.Funcs[curF.Key] = curF
			curLoop, curT = nil, nil
		case "props":
			if curF != nil {
				curF.Props = strings.Fields(rest)
			} else if curT != nil {
				curT.Props = strings.Fields(rest)
			}
		case "mode":
			for _, w := range strings.Fields(rest) {
				switch w {
				case "bv":
					curF.BV = true
				case "fp":
					curF.FP = true
				}
			}
		case "requires", "ensures", "invariant", "decreases", "panics_if", "effect", "exit":
			c, err := parseClause(rest)
			if err != nil {
				return errf(i, "%v", err)
			}
			switch {
			case kw == "invariant" && curLoop != nil:
				curLoop.Invariants = append(curLoop.Invariants, c)
			case kw == "invariant" && curT != nil:
				curT.Invariant = append(curT.Invariant, c)
			case kw == "decreases" && curLoop != nil:
				cc := c
				curLoop.Decreases = &cc
			case kw == "decreases" && curF != nil:
				cc := c
				curF.Decreases = &cc
			case kw == "requires" && curF != nil:
				curF.Requires = append(curF.Requires, c)
			case kw == "ensures" && curF != nil:
				curF.Ensures = append(curF.Ensures, c)
			case kw == "effect" && curF != nil:
				curF.Effects = append(curF.Effects, c)
			case kw == "exit" && curF != nil:
				curF.Exits = append(curF.Exits, c)
			case kw == "panics_if" && curF != nil:
				curF.Panics = append(curF.Panics, c)
			default:
				return errf(i, "%s outside of context", kw)
			}
		case "modifies":
			for _, m := range strings.Split(rest, ",") {
				curF.Modifies = append(curF.Modifies, strings.TrimSpace(m))
			}
		case "loop":
			n, err := strconv.Atoi(strings.Fields(rest)[0])
			if err != nil {
				return errf(i, "loop ordinal: %v", err)
			}
			curLoop = &LoopSpec{}
			if strings.Contains(rest, "infer") {
				curLoop.Infer = true
			}
			curF.Loops[n] = curLoop
		case "nopanic":
			curF.NoPanic = true
		case "infer":
			curF.InferAll = true
		case "inline":
			curF.Inline = true
		case "alloc_budget":
			c, err := parseClause(rest)
			if err != nil {
				return errf(i, "%v", err)
			}
			curF.AllocBudget = &c
		case "borrow":
			// borrow <source callee suffix> until <release callee suffix>
			f := strings.Fields(rest)
			if len(f) != 3 || f[1] != "until" {
				return errf(i, "borrow SOURCE until RELEASE")
			}
			curF.Borrows = append(curF.Borrows, [2]string{f[0], f[2]})
		case "assume_frame":
			curF.AssumeFrame = true
		case "opaque":
			curF.Opaque = true
		case "trusted":
			curF.Trusted = true
		case "interface":
			curF.Iface = true
		case "pure":
			curF.Pure = true
		case "fresh":
			curF.Fresh = true
		case "overflow":
			curF.Overflow = true
		case "lockset":
			curF.Lockset = true
		case "unroll":
			n, err := strconv.Atoi(rest)
			if err != nil {
				return errf(i, "unroll: %v", err)
			}
			curF.Unroll = n
		case "at":
			// at call <callee>: assert e | assume e
			r := strings.TrimPrefix(rest, "call")
			k := strings.Index(r, ":")
			if k < 0 {
				return errf(i, "bad at-call clause")
			}
			callee := strings.TrimSpace(r[:k])
			body := strings.TrimSpace(r[k+1:])
			ac := AtCall{Callee: callee}
			w := strings.Fields(body)[0]
			c, err := parseClause(strings.TrimSpace(body[len(w):]))
			if err != nil {
				return errf(i, "%v", err)
			}
			if w == "assert" {
				ac.Assert = &c
			} else {
				ac.Assume = &c
			}
			curF.AtCalls = append(curF.AtCalls, ac)
		case "spec":
			// spec fn name(a T, b U) R = expr     |  spec fn name(a T) R   (uninterpreted)
			r := strings.TrimSpace(strings.TrimPrefix(rest, "fn"))
			bv, fp, rec := false, false, false
			for {
				if strings.HasPrefix(r, "bv ") {
					bv = true
					r = strings.TrimSpace(r[3:])
				} else if strings.HasPrefix(r, "fp ") {
					fp = true
					r = strings.TrimSpace(r[3:])
				} else if strings.HasPrefix(r, "rec ") {
					rec = true
					r = strings.TrimSpace(r[4:])
				} else {
					break
				}
			}
			op := strings.Index(r, "(")
			cp := matchParen(r, op)
			if op < 0 || cp < 0 {
				return errf(i, "bad spec fn")
			}
			fn := &SpecFn{Name: strings.TrimSpace(r[:op]), BV: bv, FP: fp, Rec: rec, File: file}
			for _, prm := range strings.Split(r[op+1:cp], ",") {
				f := strings.Fields(prm)
				if len(f) == 0 {
					continue
				}
				if len(f) < 2 {
					return errf(i, "spec fn param needs a type: %q", prm)
				}
				fn.Params = append(fn.Params, QVar{f[0], strings.Join(f[1:], "")})
			}
			tail := strings.TrimSpace(r[cp+1:])
			if k := strings.Index(tail, "="); k >= 0 && !strings.HasPrefix(tail[k:], "==") {
				fn.Ret = strings.TrimSpace(tail[:k])
				fn.Src = strings.TrimSpace(tail[k+1:])
				e, err := ParseExpr(fn.Src)
				if err != nil {
					return errf(i, "%v", err)
				}
				fn.Body = e
			} else {
				fn.Ret = tail
			}
			if _, dup := sp.Fns[fn.Name]; dup {
				return errf(i, "duplicate spec fn %s", fn.Name)
			}
			sp.Fns[fn.Name] = fn
			curF, curLoop, curT = nil, nil, nil
		case "lemma":
			k := strings.Index(rest, ":")
			if k < 0 {
				return errf(i, "bad lemma")
			}
			hdr := strings.Fields(rest[:k])
			lm := &Lemma{Name: hdr[0], File: file, Props: append([]string{}, fileProps...)}
			for _, w := range hdr[1:] {
				switch {
				case w == "bv":
					lm.BV = true
				case w == "fp":
					lm.FP = true
				case strings.HasPrefix(w, "C"):
					lm.Props = append(lm.Props, w)
				case strings.HasPrefix(w, "uses="):
					lm.Uses = strings.Split(w[5:], ",")
				}
			}
			lm.Src = strings.TrimSpace(rest[k+1:])
			e, err := ParseExpr(lm.Src)
			if err != nil {
				return errf(i, "%v", err)
			}
			lm.E = e
			sp.Lemmas = append(sp.Lemmas, lm)
			curF, curLoop, curT = nil, nil, nil
		case "axiom":
			k := strings.Index(rest, ":")
			if k < 0 {
				return errf(i, "bad axiom")
			}
			hdr := strings.Fields(rest[:k])
			ax := &Axiom{Name: hdr[0], File: file}
			for _, w := range hdr[1:] {
				if w == "bv" {
					ax.BV = true
				}
			}
			ax.Src = strings.TrimSpace(rest[k+1:])
			e, err := ParseExpr(ax.Src)
			if err != nil {
				return errf(i, "%v", err)
			}
			ax.E = e
			sp.Axioms = append(sp.Axioms, ax)
			curF, curLoop, curT = nil, nil, nil
		case "ghost":
			if curF != nil && !strings.HasPrefix(rest, "var ") {
				f := strings.Fields(rest)
				if len(f) < 2 {
					return errf(i, "ghost NAME TYPE")
				}
				curF.GhostParams = append(curF.GhostParams, QVar{f[0], strings.Join(f[1:], "")})
				continue
			}
			f := strings.Fields(rest)
			if len(f) < 3 || f[0] != "var" {
				return errf(i, "ghost var NAME TYPE")
			}
			sp.Ghosts[f[1]] = &GhostVar{Name: f[1], Type: strings.Join(f[2:], ""), File: file}
			curF, curLoop, curT = nil, nil, nil
		case "type":
			curT = &TypeSpec{Key: qual(strings.Fields(rest)[0]), GuardedBy: map[string][]string{}, File: file, Props: append([]string{}, fileProps...)}
			sp.Types[curT.Key] = curT
			curF, curLoop = nil, nil
		case "guarded_by":
			// guarded_by(lock) f1, f2
			op, cp := strings.Index(l, "("), strings.Index(l, ")")
			if curT == nil || op < 0 || cp < 0 {
				return errf(i, "bad guarded_by")
			}
			lock := strings.TrimSpace(l[op+1 : cp])
			for _, f := range strings.Split(l[cp+1:], ",") {
				curT.GuardedBy[lock] = append(curT.GuardedBy[lock], strings.TrimSpace(f))
			}
		case "atomic_only":
			for _, f := range strings.Split(rest, ",") {
				curT.Atomic = append(curT.Atomic, strings.TrimSpace(f))
			}
		case "field_contract":
			// field_contract T.f = key
			f := strings.Split(rest, "=")
			if len(f) != 2 {
				return errf(i, "bad field_contract")
			}
			sp.FieldContracts[qual(strings.TrimSpace(f[0]))] = strings.TrimSpace(f[1])
		default:
			return errf(i, "unknown clause keyword %q", kw)
		}
	}
	sp.Files = append(sp.Files, file)
	return nil
}

func matchParen(s string, op int) int {
	if op < 0 {
		return -1
	}
	d := 0
	for i := op; i < len(s); i++ {
		switch s[i] {
		case '(':
			d++
		case ')':
			d--
			if d == 0 {
				return i
			}
		}
	}
	return -1
}

// LoadGoContractFile reads //@ lines from a comment-only Go file.
func (sp *Specs) LoadGoContractFile(path, pkgPath string) error {
	b, err := os.ReadFile(path)
	if err != nil {
		return err
	}
	var raw []string
	for _, l := range strings.Split(string(b), "\n") {
		t := strings.TrimSpace(l)
		if strings.HasPrefix(t, "//@") {
			raw = append(raw, strings.TrimPrefix(t, "//@"))
		} else {
			raw = append(raw, "")
		}
	}
	return sp.ParseSpecLines(path, raw, pkgPath, false)
}

func (sp *Specs) LoadExtDir(dir string) error {
	files, _ := filepath.Glob(filepath.Join(dir, "*.spec"))
	sort.Strings(files)
	for _, f := range files {
		b, err := os.ReadFile(f)
		if err != nil {
			return err
		}
		if err := sp.ParseSpecLines(f, strings.Split(string(b), "\n"), "", true); err != nil {
			return err
		}
	}
	return nil
}

func hasProp(props []string, id string) bool {
	for _, p := range props {
		if p == id {
			return true
		}
	}
	return false
}
