package main

import (
	"os"
	"fmt"
	"go/types"
	"math/big"
	"regexp"
	"sort"
	"strings"
)

// ---------- sorts ----------

type SK int

const (
	SBool SK = iota
	SInt      // mathematical integer carrying Go width/sign for range facts
	SReal
	SBV
	SFP
	SRef // Int-valued reference (pointers, maps, chans, funcs, type tags)
	SStr
	SArr
)

type Sort struct {
	K      SK
	Bits   int  // SInt/SBV: Go width (0 = unbounded spec int)
	Signed bool
	Key    *Sort
	Val    *Sort
}

func (s *Sort) SMT() string {
	switch s.K {
	case SBool:
		return "Bool"
	case SInt, SRef:
		return "Int"
	case SReal:
		return "Real"
	case SBV:
		return fmt.Sprintf("(_ BitVec %d)", s.Bits)
	case SFP:
		return "(_ FloatingPoint 11 53)"
	case SStr:
		return "VStr"
	case SArr:
		return "(Array " + s.Key.SMT() + " " + s.Val.SMT() + ")"
	}
	return "?"
}

func (s *Sort) Eq(o *Sort) bool {
	if s.K != o.K {
		return false
	}
	switch s.K {
	case SBV:
		return s.Bits == o.Bits
	case SArr:
		return s.Key.Eq(o.Key) && s.Val.Eq(o.Val)
	}
	return true
}

func (s *Sort) IsNum() bool { return s.K == SInt || s.K == SBV || s.K == SReal || s.K == SFP }

var (
	sortBool = &Sort{K: SBool}
	sortInt  = &Sort{K: SInt, Bits: 0, Signed: true}
	sortReal = &Sort{K: SReal}
	sortRef  = &Sort{K: SRef}
	sortStr  = &Sort{K: SStr}
	sortFP   = &Sort{K: SFP}
)

type Mode struct{ BV, FP bool }

// ---------- values ----------

// Val is a symbolic value: a list of SMT leaf terms laid out according to
// either a Go type (GT != nil) or a single spec sort.
type Val struct {
	GT types.Type
	S  []*Sort
	L  []string
}

func (v Val) One() string {
	if len(v.L) != 1 {
		panic(fmt.Sprintf("value with %d leaves used as scalar (type %v)", len(v.L), v.GT))
	}
	return v.L[0]
}

func scalar(s *Sort, t string) Val { return Val{S: []*Sort{s}, L: []string{t}} }
func boolVal(t string) Val       { return scalar(sortBool, t) }

// ---------- VC context: definitions + slicing ----------

type Def struct {
	Name string
	Sort string
	Body string // "" => declared constant
	Raw  string // raw top-level command (axioms, declare-fun), Name is its key
}

type VC struct {
	fpBits map[string]string // float term -> the bit-vector constant that stands for its bit pattern
	consed map[string]string // (prefix|sort|body) -> definition name
	defs   []*Def
	byName map[string]*Def
	n      int
	mode   Mode
	inQuant int // >0 while building a term under a binder: no definitions may be introduced
	// raw prelude items always included when referenced by name token
	preludeOrder []string
	prelude      map[string]*Def
	// axioms: included whenever any of trigger names is referenced
	axioms []*axiomDef
}

type axiomDef struct {
	name     string
	body     string // full (assert ...) text
	triggers []string
}

func NewVC(mode Mode) *VC {
	vc := &VC{byName: map[string]*Def{}, prelude: map[string]*Def{}, mode: mode}
	vc.DeclareRaw("VStr", "(declare-sort VStr 0)") // emitted only when referenced
	return vc
}

func (vc *VC) fresh(prefix string) string {
	vc.n++
	return fmt.Sprintf("%s!%d", sanitize(prefix), vc.n)
}

var sanRe = regexp.MustCompile(`[^A-Za-z0-9_.$]`)

func sanitize(s string) string { return sanRe.ReplaceAllString(s, "_") }

// Declare introduces an unconstrained constant.
func (vc *VC) Declare(prefix string, s *Sort) string {
	n := vc.fresh(prefix)
	d := &Def{Name: n, Sort: s.SMT()}
	vc.defs = append(vc.defs, d)
	vc.byName[n] = d
	return n
}

// Define introduces name = body.
func (vc *VC) Define(prefix string, s *Sort, body string) string {
	if isAtom(body) || vc.inQuant > 0 {
		return body
	}
	// hash-consing: the same (prefix, sort, body) is the same constant. Two loads of one cell from the
	// same heap version get one name, which keeps queries small and lets the term-based instantiation
	// match index terms syntactically.
	key := prefix + "|" + s.SMT() + "|" + body
	if vc.consed == nil {
		vc.consed = map[string]string{}
	}
	if n, ok := vc.consed[key]; ok && !noCons {
		return n
	}
	n := vc.fresh(prefix)
	d := &Def{Name: n, Sort: s.SMT(), Body: body}
	vc.defs = append(vc.defs, d)
	vc.byName[n] = d
	vc.consed[key] = n
	return n
}

// hash-consing of definitions is semantically neutral but changes what the solvers find within the
// inference budget (C20: Houdini kept a different candidate set); it stays off unless asked for.
var noCons = os.Getenv("GOVC_CONS") == ""

func isAtom(s string) bool {
	if s == "" {
		return false
	}
	if s[0] == '(' {
		return false
	}
	return !strings.ContainsAny(s, " ")
}

// DeclareFun adds an uninterpreted function / sort to the prelude (idempotent).
func (vc *VC) DeclareRaw(name, cmd string) {
	if _, ok := vc.prelude[name]; ok {
		return
	}
	vc.prelude[name] = &Def{Name: name, Raw: cmd}
	vc.preludeOrder = append(vc.preludeOrder, name)
}

func (vc *VC) AddAxiom(name, body string, triggers ...string) {
	for _, a := range vc.axioms {
		if a.name == name {
			return
		}
	}
	vc.axioms = append(vc.axioms, &axiomDef{name, body, triggers})
}

var tokRe = regexp.MustCompile(`[A-Za-z_$][A-Za-z0-9_.$!@]*`)

// Emit produces a self-contained SMT-LIB script: hyps are asserted, goal is
// negated. If goal == "" only the hypotheses are asserted (vacuity query).
func (vc *VC) Emit(hyps []string, goal string, wantModel bool) string {
	return vc.EmitOpt(hyps, goal, wantModel, false)
}

// weakenForalls replaces universally quantified sub-formulas in positive positions by true.
// ok is false when a quantifier occurs somewhere it cannot be dropped soundly.
func weakenForalls(t string) (string, bool) {
	if !strings.Contains(t, "(forall ") && !strings.Contains(t, "(exists ") {
		return t, true
	}
	if strings.HasPrefix(t, "(forall ") {
		return "true", true
	}
	p := sexpList(t)
	if len(p) == 0 {
		return t, false
	}
	switch p[0] {
	case "and", "or":
		out := []string{p[0]}
		for _, a := range p[1:] {
			w, ok := weakenForalls(a)
			if !ok {
				return t, false
			}
			out = append(out, w)
		}
		return "(" + strings.Join(out, " ") + ")", true
	case "=>":
		if len(p) != 3 || strings.Contains(p[1], "(forall ") || strings.Contains(p[1], "(exists ") {
			return t, false
		}
		w, ok := weakenForalls(p[2])
		if !ok {
			return t, false
		}
		return "(=> " + p[1] + " " + w + ")", true
	case "!":
		if len(p) >= 2 {
			return weakenForalls(p[1])
		}
	}
	return t, false
}

// EmitOpt: with weaken, every definition D = body whose body has universally quantified conjuncts
// is emitted as D => body-without-them (a consequence of the definition), so that only the
// ground instances produced by defInstances / termInstances remain. A weaker hypothesis set:
// unsat still proves the goal, sat means nothing.
func (vc *VC) EmitOpt(hyps []string, goal string, wantModel bool, weaken bool) string {
	var skDecls []string
	var sks []skolem
	if goal != "" {
		goal, sks, skDecls = vc.skolemiseGoal(goal)
	}
	needed := map[string]bool{}
	var work []string
	scan := func(s string) {
		for _, t := range tokRe.FindAllString(s, -1) {
			if !needed[t] {
				if _, ok := vc.byName[t]; ok {
					needed[t] = true
					work = append(work, t)
				} else if _, ok := vc.prelude[t]; ok {
					needed[t] = true
					work = append(work, t)
				}
			}
		}
	}
	for _, h := range hyps {
		scan(h)
	}
	scan(goal)
	axUsed := map[string]bool{}
	for {
		for len(work) > 0 {
			t := work[len(work)-1]
			work = work[:len(work)-1]
			if d, ok := vc.byName[t]; ok {
				scan(d.Body)
				scan(d.Sort)
			} else if d, ok := vc.prelude[t]; ok {
				scan(d.Raw)
			}
		}
		// axioms triggered?
		added := false
		for _, a := range vc.axioms {
			if axUsed[a.name] {
				continue
			}
			for _, tr := range a.triggers {
				if needed[tr] {
					axUsed[a.name] = true
					scan(a.body)
					added = true
					break
				}
			}
		}
		if !added && len(work) == 0 {
			break
		}
	}
	var extra []string
	if len(sks) > 0 {
		for _, h := range hyps {
			var fas []string
			conjunctForalls(h, &fas)
			for _, fa := range fas {
				extra = append(extra, instances(fa, sks)...)
			}
		}
		extra = append(extra, vc.defInstances(needed, sks)...)
	}
	if goal != "" {
		extra = append(extra, vc.termInstances(needed, hyps, goal, sks)...)
	}
	var b strings.Builder
	if wantModel {
		b.WriteString("(set-option :produce-models true)\n")
	}
	b.WriteString("(set-logic ALL)\n")
	for _, n := range vc.preludeOrder {
		if needed[n] {
			b.WriteString(vc.prelude[n].Raw)
			b.WriteString("\n")
		}
	}
	for _, d := range vc.defs {
		if !needed[d.Name] {
			continue
		}
		fmt.Fprintf(&b, "(declare-const %s %s)\n", d.Name, d.Sort)
	}
	for _, d := range skDecls {
		b.WriteString(d)
		b.WriteString("\n")
	}
	for _, d := range vc.defs {
		if !needed[d.Name] || d.Body == "" {
			continue
		}
		if weaken && d.Sort == "Bool" && strings.Contains(d.Body, "(forall ") {
			if w, ok := weakenForalls(d.Body); ok {
				fmt.Fprintf(&b, "(assert (=> %s %s))\n", d.Name, w)
				continue
			}
		}
		fmt.Fprintf(&b, "(assert (= %s %s))\n", d.Name, d.Body)
	}
	for _, a := range vc.axioms {
		if axUsed[a.name] {
			b.WriteString(a.body)
			b.WriteString("\n")
		}
	}
	for _, h := range hyps {
		fmt.Fprintf(&b, "(assert %s)\n", h)
	}
	for _, h := range extra {
		fmt.Fprintf(&b, "(assert %s)\n", h)
	}
	if goal != "" {
		fmt.Fprintf(&b, "(assert (not %s))\n", goal)
	}
	b.WriteString("(check-sat)\n")
	if wantModel {
		b.WriteString("(get-model)\n")
	}
	return b.String()
}

// ---------- term helpers ----------

func and(xs ...string) string {
	var ys []string
	for _, x := range xs {
		if x == "true" || x == "" {
			continue
		}
		if x == "false" {
			return "false"
		}
		ys = append(ys, x)
	}
	switch len(ys) {
	case 0:
		return "true"
	case 1:
		return ys[0]
	}
	return "(and " + strings.Join(ys, " ") + ")"
}

func or(xs ...string) string {
	var ys []string
	for _, x := range xs {
		if x == "false" || x == "" {
			continue
		}
		if x == "true" {
			return "true"
		}
		ys = append(ys, x)
	}
	switch len(ys) {
	case 0:
		return "false"
	case 1:
		return ys[0]
	}
	return "(or " + strings.Join(ys, " ") + ")"
}

func not(x string) string {
	switch x {
	case "true":
		return "false"
	case "false":
		return "true"
	}
	if strings.HasPrefix(x, "(not ") && strings.HasSuffix(x, ")") && balanced(x[5:len(x)-1]) {
		return x[5 : len(x)-1]
	}
	return "(not " + x + ")"
}

func balanced(s string) bool {
	d := 0
	for i := 0; i < len(s); i++ {
		switch s[i] {
		case '(':
			d++
		case ')':
			d--
			if d < 0 {
				return false
			}
		case ' ':
			if d == 0 {
				return false
			}
		}
	}
	return d == 0
}

func implies(a, b string) string {
	if a == "true" {
		return b
	}
	if b == "true" || a == "false" {
		return "true"
	}
	return "(=> " + a + " " + b + ")"
}

func ite(c, a, b string) string {
	if a == b {
		return a
	}
	if c == "true" {
		return a
	}
	if c == "false" {
		return b
	}
	return "(ite " + c + " " + a + " " + b + ")"
}

func eq(a, b string) string {
	if a == b {
		return "true"
	}
	return "(= " + a + " " + b + ")"
}

func intLit(v *big.Int) string {
	if v.Sign() < 0 {
		return "(- " + new(big.Int).Neg(v).String() + ")"
	}
	return v.String()
}

func bvLit(v *big.Int, bits int) string {
	m := new(big.Int).Lsh(big.NewInt(1), uint(bits))
	x := new(big.Int).Mod(v, m)
	return fmt.Sprintf("(_ bv%s %d)", x.String(), bits)
}

func pow2(n int) *big.Int { return new(big.Int).Lsh(big.NewInt(1), uint(n)) }

func rangeOf(s *Sort) (lo, hi *big.Int) {
	if s.Signed {
		lo = new(big.Int).Neg(pow2(s.Bits - 1))
		hi = new(big.Int).Sub(pow2(s.Bits-1), big.NewInt(1))
	} else {
		lo = big.NewInt(0)
		hi = new(big.Int).Sub(pow2(s.Bits), big.NewInt(1))
	}
	return
}

// rangeFact gives the type-range constraint of an Int-mode machine integer.
func rangeFact(s *Sort, t string) string {
	if s.K != SInt || s.Bits == 0 {
		return "true"
	}
	lo, hi := rangeOf(s)
	return "(and (<= " + intLit(lo) + " " + t + ") (<= " + t + " " + intLit(hi) + "))"
}

func sortedKeys[V any](m map[string]V) []string {
	// deterministic order
	ks := make([]string, 0, len(m))
	for k := range m {
		ks = append(ks, k)
	}
	sort.Strings(ks)
	return ks
}

// sortOfGo: scalar sort of a basic Go type in this VC's mode (used by the replay generator).
func (vc *VC) sortOfGo(t types.Type) *Sort {
	b, ok := t.Underlying().(*types.Basic)
	if !ok {
		return nil
	}
	if b.Info()&types.IsInteger != 0 {
		bits, signed := basicBits(b)
		if vc.mode.BV {
			return &Sort{K: SBV, Bits: bits, Signed: signed}
		}
		return &Sort{K: SInt, Bits: bits, Signed: signed}
	}
	return nil
}
