package main

// Arithmetic of Go values in the two integer modes (int = mathematical with
// explicit wrap where cheap; bv = exact fixed width) and two float modes.

import (
	"fmt"
	"go/constant"
	"go/token"
	"go/types"
	"math/big"
	"strings"
)

func (x *Exec) intSort(bits int, signed bool) *Sort {
	if x.mode.BV {
		return &Sort{K: SBV, Bits: bits, Signed: signed}
	}
	return &Sort{K: SInt, Bits: bits, Signed: signed}
}

func (x *Exec) idxSort() *Sort { return x.intSort(64, true) }

func (x *Exec) floatSort() *Sort {
	if x.mode.FP {
		return sortFP
	}
	return sortReal
}

func basicBits(b *types.Basic) (int, bool) {
	switch b.Kind() {
	case types.Int8:
		return 8, true
	case types.Int16:
		return 16, true
	case types.Int32, types.UntypedRune:
		return 32, true
	case types.Int, types.Int64, types.UntypedInt:
		return 64, true
	case types.Uint8:
		return 8, false
	case types.Uint16:
		return 16, false
	case types.Uint32:
		return 32, false
	case types.Uint, types.Uint64, types.Uintptr:
		return 64, false
	}
	return 0, false
}

// layout maps a Go type to its leaf sorts.
func (x *Exec) layout(t types.Type) []*Sort {
	switch u := t.Underlying().(type) {
	case *types.Basic:
		switch {
		case u.Info()&types.IsBoolean != 0:
			return []*Sort{sortBool}
		case u.Info()&types.IsInteger != 0:
			b, s := basicBits(u)
			return []*Sort{x.intSort(b, s)}
		case u.Info()&types.IsFloat != 0:
			return []*Sort{x.floatSort()}
		case u.Info()&types.IsString != 0:
			return []*Sort{sortStr}
		case u.Kind() == types.UnsafePointer, u.Kind() == types.UntypedNil:
			return []*Sort{sortRef}
		case u.Info()&types.IsComplex != 0:
			return []*Sort{sortRef}
		}
	case *types.Pointer, *types.Map, *types.Chan, *types.Signature:
		return []*Sort{sortRef}
	case *types.Slice:
		i := x.idxSort()
		return []*Sort{sortRef, i, i, i}
	case *types.Interface:
		return []*Sort{sortRef, sortRef}
	case *types.Struct:
		var out []*Sort
		for i := 0; i < u.NumFields(); i++ {
			out = append(out, x.layout(u.Field(i).Type())...)
		}
		return out
	case *types.Array:
		el := x.layout(u.Elem())
		if len(el) == 1 {
			return []*Sort{{K: SArr, Key: x.idxSort(), Val: el[0]}}
		}
		return []*Sort{sortRef}
	case *types.Tuple:
		var out []*Sort
		for i := 0; i < u.Len(); i++ {
			out = append(out, x.layout(u.At(i).Type())...)
		}
		return out
	case *types.TypeParam:
		return []*Sort{sortRef}
	}
	return []*Sort{sortRef}
}

func (x *Exec) fieldRange(st *types.Struct, i int) (lo, hi int) {
	for k := 0; k < i; k++ {
		lo += len(x.layout(st.Field(k).Type()))
	}
	return lo, lo + len(x.layout(st.Field(i).Type()))
}

func (x *Exec) tupleRange(tt *types.Tuple, i int) (lo, hi int) {
	for k := 0; k < i; k++ {
		lo += len(x.layout(tt.At(k).Type()))
	}
	return lo, lo + len(x.layout(tt.At(i).Type()))
}

func (x *Exec) zeroLeaf(s *Sort) string {
	switch s.K {
	case SBool:
		return "false"
	case SInt, SRef:
		return "0"
	case SReal:
		return "0.0"
	case SBV:
		return bvLit(big.NewInt(0), s.Bits)
	case SFP:
		return "(_ +zero 11 53)"
	case SStr:
		x.needStr()
		return "str.empty"
	case SArr:
		return "((as const " + s.SMT() + ") " + x.zeroLeaf(s.Val) + ")"
	}
	return "0"
}

func (x *Exec) zeroVal(t types.Type) Val {
	ss := x.layout(t)
	v := Val{GT: t, S: ss}
	for _, s := range ss {
		v.L = append(v.L, x.zeroLeaf(s))
	}
	return v
}

// freshVal declares an unconstrained value of Go type t and returns it along
// with its type-range facts.
func (x *Exec) freshVal(prefix string, t types.Type) (Val, string) {
	ss := x.layout(t)
	v := Val{GT: t, S: ss}
	var facts []string
	for i, s := range ss {
		n := x.vc.Declare(fmt.Sprintf("%s.%d", prefix, i), s)
		v.L = append(v.L, n)
		facts = append(facts, rangeFact(s, n))
	}
	facts = append(facts, x.typeFacts(v))
	return v, and(facts...)
}

// typeFacts: structural invariants of Go values (slice header sanity).
func (x *Exec) typeFacts(v Val) string {
	if v.GT == nil {
		if len(v.S) == 1 {
			return rangeFact(v.S[0], v.L[0])
		}
		return "true"
	}
	var facts []string
	var walk func(t types.Type, off int) int
	walk = func(t types.Type, off int) int {
		switch u := t.Underlying().(type) {
		case *types.Slice:
			b, o, l, c := v.L[off], v.L[off+1], v.L[off+2], v.L[off+3]
			s := v.S[off+1]
			z := x.zeroLeaf(s)
			facts = append(facts, x.cmp("<=", z, o, s), x.cmp("<=", z, l, s), x.cmp("<=", l, c, s),
				implies(eq(b, "0"), and(eq(l, z), eq(c, z))))
			if !x.mode.BV {
				facts = append(facts, "(<= (+ "+o+" "+c+") 4611686018427387904)")
			} else {
				// off + cap does not wrap and stays below 2^62
				facts = append(facts, "(bvule "+o+" #x4000000000000000)", "(bvule "+c+" #x4000000000000000)")
			}
			return off + 4
		case *types.Struct:
			for i := 0; i < u.NumFields(); i++ {
				off = walk(u.Field(i).Type(), off)
			}
			return off
		case *types.Tuple:
			for i := 0; i < u.Len(); i++ {
				off = walk(u.At(i).Type(), off)
			}
			return off
		default:
			n := len(x.layout(t))
			for k := 0; k < n; k++ {
				facts = append(facts, rangeFact(v.S[off+k], v.L[off+k]))
			}
			return off + n
		}
	}
	walk(v.GT, 0)
	return and(facts...)
}

func (x *Exec) cmp(op, a, b string, s *Sort) string {
	switch s.K {
	case SBV:
		m := map[string]string{"<": "bvult", "<=": "bvule", ">": "bvugt", ">=": "bvuge"}
		if s.Signed {
			m = map[string]string{"<": "bvslt", "<=": "bvsle", ">": "bvsgt", ">=": "bvsge"}
		}
		return "(" + m[op] + " " + a + " " + b + ")"
	case SFP:
		m := map[string]string{"<": "fp.lt", "<=": "fp.leq", ">": "fp.gt", ">=": "fp.geq"}
		return "(" + m[op] + " " + a + " " + b + ")"
	}
	return "(" + op + " " + a + " " + b + ")"
}

func (x *Exec) numLit(v *big.Int, s *Sort) string {
	switch s.K {
	case SBV:
		return bvLit(v, s.Bits)
	case SReal:
		if v.Sign() < 0 {
			return "(- " + new(big.Int).Neg(v).String() + ".0)"
		}
		return v.String() + ".0"
	case SFP:
		f := new(big.Float).SetInt(v)
		return fpLit(f)
	}
	return intLit(v)
}

func fpLit(f *big.Float) string {
	r, _ := f.Rat(nil)
	if r == nil {
		return "(_ +zero 11 53)"
	}
	return "((_ to_fp 11 53) RNE (/ " + realOfInt(r.Num()) + " " + realOfInt(r.Denom()) + "))"
}

func realOfInt(v *big.Int) string {
	if v.Sign() < 0 {
		return "(- " + new(big.Int).Neg(v).String() + ".0)"
	}
	return v.String() + ".0"
}

func ratLit(r *big.Rat) string {
	if r.IsInt() {
		return realOfInt(r.Num())
	}
	return "(/ " + realOfInt(r.Num()) + " " + realOfInt(r.Denom()) + ")"
}

// constVal translates an ssa.Const.
func (x *Exec) constVal(t types.Type, cv constant.Value) Val {
	if cv == nil {
		return x.zeroVal(t)
	}
	ss := x.layout(t)
	s := ss[0]
	switch cv.Kind() {
	case constant.Bool:
		return Val{GT: t, S: ss, L: []string{fmt.Sprint(constant.BoolVal(cv))}}
	case constant.Int:
		bi, _ := new(big.Int).SetString(cv.ExactString(), 10)
		if s.K == SReal || s.K == SFP {
			return Val{GT: t, S: ss, L: []string{x.numLit(bi, s)}}
		}
		return Val{GT: t, S: ss, L: []string{x.numLit(bi, s)}}
	case constant.Float:
		if s.K == SInt || s.K == SBV {
			f, _ := constant.Float64Val(cv)
			bi, _ := big.NewFloat(f).Int(nil)
			return Val{GT: t, S: ss, L: []string{x.numLit(bi, s)}}
		}
		r := new(big.Rat)
		if _, ok := r.SetString(cv.ExactString()); !ok {
			f, _ := constant.Float64Val(cv)
			r.SetFloat64(f)
		}
		if s.K == SFP {
			f, _ := constant.Float64Val(cv)
			return Val{GT: t, S: ss, L: []string{fpLit(big.NewFloat(f))}}
		}
		return Val{GT: t, S: ss, L: []string{ratLit(r)}}
	case constant.String:
		return Val{GT: t, S: ss, L: []string{x.strConst(constant.StringVal(cv))}}
	}
	return x.zeroVal(t)
}

// ---- strings: uninterpreted sort with length and byte-at ----

func (x *Exec) needStr() {
	x.vc.DeclareRaw("VStr", "(declare-sort VStr 0)")
	x.vc.DeclareRaw("str.len", "(declare-fun str.len (VStr) Int)")
	x.vc.DeclareRaw("str.at", "(declare-fun str.at (VStr Int) Int)")
	x.vc.DeclareRaw("str.empty", "(declare-const str.empty VStr)")
	x.vc.AddAxiom("str.len.nonneg", "(assert (forall ((s VStr)) (! (>= (str.len s) 0) :pattern ((str.len s)))))", "str.len")
	x.vc.AddAxiom("str.empty.len", "(assert (= (str.len str.empty) 0))", "str.empty")
	x.vc.AddAxiom("str.at.byte", "(assert (forall ((s VStr) (i Int)) (! (and (<= 0 (str.at s i)) (<= (str.at s i) 255)) :pattern ((str.at s i)))))", "str.at")
	x.vc.AddAxiom("str.ext0", "(assert (forall ((s VStr)) (! (=> (= (str.len s) 0) (= s str.empty)) :pattern ((str.len s)))))", "str.empty")
}

func (x *Exec) strConst(s string) string {
	x.needStr()
	if s == "" {
		return "str.empty"
	}
	if n, ok := x.strConsts[s]; ok {
		return n
	}
	n := fmt.Sprintf("str.c%d", len(x.strConsts))
	x.strConsts[s] = n
	x.vc.DeclareRaw(n, "(declare-const "+n+" VStr)")
	facts := []string{fmt.Sprintf("(= (str.len %s) %d)", n, len(s))}
	if len(s) <= 16 {
		for i := 0; i < len(s); i++ {
			facts = append(facts, fmt.Sprintf("(= (str.at %s %d) %d)", n, i, s[i]))
		}
	}
	// distinct from previously declared constants of different content
	for o, on := range x.strConsts {
		if o != s {
			facts = append(facts, "(not (= "+n+" "+on+"))")
		}
	}
	x.vc.AddAxiom("strc."+n, "(assert "+and(facts...)+")", n)
	return n
}

func (x *Exec) strLen(s string) string {
	x.needStr()
	l := "(str.len " + s + ")"
	if x.mode.BV {
		return "((_ int2bv 64) " + l + ")"
	}
	return l
}

// ---- integer ops ----

func (x *Exec) wrap(t string, s *Sort) string {
	if s.K != SInt || s.Bits == 0 {
		return t
	}
	m := pow2(s.Bits).String()
	if !s.Signed {
		return "(mod " + t + " " + m + ")"
	}
	h := pow2(s.Bits - 1).String()
	return "(- (mod (+ " + t + " " + h + ") " + m + ") " + h + ")"
}

func isLit(t string) (*big.Int, bool) {
	if strings.HasPrefix(t, "(- ") && strings.HasSuffix(t, ")") {
		v, ok := new(big.Int).SetString(t[3:len(t)-1], 10)
		if ok {
			return v.Neg(v), true
		}
		return nil, false
	}
	v, ok := new(big.Int).SetString(t, 10)
	return v, ok
}

func (x *Exec) uf(name, sig string) string {
	x.vc.DeclareRaw(name, "(declare-fun "+name+" "+sig+")")
	return name
}

func tdiv(a, b string) string {
	if bv, ok := isLit(b); ok && bv.Sign() > 0 {
		return "(ite (>= " + a + " 0) (div " + a + " " + b + ") (- (div (- " + a + ") " + b + ")))"
	}
	return "(ite (>= " + a + " 0) (ite (> " + b + " 0) (div " + a + " " + b + ") (- (div " + a + " (- " + b + ")))) (ite (> " + b + " 0) (- (div (- " + a + ") " + b + ")) (div (- " + a + ") (- " + b + "))))"
}

func tmod(a, b string) string {
	if bv, ok := isLit(b); ok && bv.Sign() > 0 {
		return "(ite (>= " + a + " 0) (mod " + a + " " + b + ") (- (mod (- " + a + ") " + b + ")))"
	}
	return "(- " + a + " (* " + b + " " + tdiv(a, b) + "))"
}

// binop computes a Go binary operation on scalars. t is the operand type (for
// comparisons) / result type (arithmetic); ys is the sort of the right operand
// (differs for shifts).
func (x *Exec) binop(op token.Token, a, b string, s, ys *Sort) (res string, rs *Sort) {
	switch op {
	case token.EQL:
		if s.K == SFP {
			return "(fp.eq " + a + " " + b + ")", sortBool
		}
		return eq(a, b), sortBool
	case token.NEQ:
		if s.K == SFP {
			return "(not (fp.eq " + a + " " + b + "))", sortBool
		}
		return not(eq(a, b)), sortBool
	case token.LSS:
		return x.cmp("<", a, b, s), sortBool
	case token.LEQ:
		return x.cmp("<=", a, b, s), sortBool
	case token.GTR:
		return x.cmp(">", a, b, s), sortBool
	case token.GEQ:
		return x.cmp(">=", a, b, s), sortBool
	case token.LAND:
		return and(a, b), sortBool
	case token.LOR:
		return or(a, b), sortBool
	}
	switch s.K {
	case SBool:
		switch op {
		case token.AND:
			return and(a, b), sortBool
		case token.OR:
			return or(a, b), sortBool
		case token.XOR:
			return "(xor " + a + " " + b + ")", sortBool
		}
	case SReal:
		m := map[token.Token]string{token.ADD: "+", token.SUB: "-", token.MUL: "*", token.QUO: "/"}
		return "(" + m[op] + " " + a + " " + b + ")", s
	case SFP:
		m := map[token.Token]string{token.ADD: "fp.add", token.SUB: "fp.sub", token.MUL: "fp.mul", token.QUO: "fp.div"}
		return "(" + m[op] + " RNE " + a + " " + b + ")", s
	case SStr:
		if op == token.ADD {
			x.needStr()
			x.uf("str.cat", "(VStr VStr) VStr")
			x.vc.AddAxiom("str.cat.len", "(assert (forall ((a VStr) (b VStr)) (! (= (str.len (str.cat a b)) (+ (str.len a) (str.len b))) :pattern ((str.cat a b)))))", "str.cat")
			return "(str.cat " + a + " " + b + ")", s
		}
	case SBV:
		switch op {
		case token.ADD:
			return "(bvadd " + a + " " + b + ")", s
		case token.SUB:
			return "(bvsub " + a + " " + b + ")", s
		case token.MUL:
			return "(bvmul " + a + " " + b + ")", s
		case token.QUO:
			if s.Signed {
				return "(bvsdiv " + a + " " + b + ")", s
			}
			return "(bvudiv " + a + " " + b + ")", s
		case token.REM:
			if s.Signed {
				return "(bvsrem " + a + " " + b + ")", s
			}
			return "(bvurem " + a + " " + b + ")", s
		case token.AND:
			return "(bvand " + a + " " + b + ")", s
		case token.OR:
			return "(bvor " + a + " " + b + ")", s
		case token.XOR:
			return "(bvxor " + a + " " + b + ")", s
		case token.AND_NOT:
			return "(bvand " + a + " (bvnot " + b + "))", s
		case token.SHL, token.SHR:
			cnt := x.bvResize(b, ys, s.Bits, true)
			o := "bvshl"
			if op == token.SHR {
				o = "bvlshr"
				if s.Signed {
					o = "bvashr"
				}
			}
			return "(" + o + " " + a + " " + cnt + ")", s
		}
	case SInt:
		switch op {
		case token.ADD:
			return x.wrapArith("(+ "+a+" "+b+")", s), s
		case token.SUB:
			return x.wrapArith("(- "+a+" "+b+")", s), s
		case token.MUL:
			return x.wrapArith("(* "+a+" "+b+")", s), s
		case token.QUO:
			return tdiv(a, b), s
		case token.REM:
			return tmod(a, b), s
		case token.SHL:
			if k, ok := isLit(b); ok && k.IsInt64() && k.Int64() >= 0 && k.Int64() < 128 {
				return x.wrap("(* "+a+" "+pow2(int(k.Int64())).String()+")", s), s
			}
			if k, ok := isLit(a); ok {
				// const << sym : k * pow2(b)
				x.needPow2()
				return x.wrap("(* "+intLit(k)+" (pow2 "+b+"))", s), s
			}
			x.needPow2()
			return x.wrap("(* "+a+" (pow2 "+b+"))", s), s
		case token.SHR:
			if k, ok := isLit(b); ok && k.IsInt64() && k.Int64() >= 0 && k.Int64() < 128 {
				return "(div " + a + " " + pow2(int(k.Int64())).String() + ")", s
			}
			x.needPow2()
			return "(div " + a + " (pow2 " + b + "))", s
		case token.AND:
			if r, ok := x.andMask(a, b); ok {
				return r, s
			}
			if r, ok := x.andMask(b, a); ok {
				return r, s
			}
			x.needBits()
			return "(bits.and " + a + " " + b + ")", s
		case token.OR:
			x.needBits()
			return "(bits.or " + a + " " + b + ")", s
		case token.XOR:
			x.needBits()
			return "(bits.xor " + a + " " + b + ")", s
		case token.AND_NOT:
			if k, ok := isLit(b); ok {
				k1 := new(big.Int).Add(k, big.NewInt(1))
				if k.Sign() > 0 && new(big.Int).And(k, k1).Sign() == 0 {
					return "(- " + a + " (mod " + a + " " + k1.String() + "))", s
				}
			}
			x.needBits()
			return "(bits.andnot " + a + " " + b + ")", s
		}
	}
	x.unsupported("binop %v on sort %s", op, s.SMT())
	return x.vc.Declare("unk", s), s
}

// andMask: a & (2^k - 1) = a mod 2^k
func (x *Exec) andMask(a, m string) (string, bool) {
	k, ok := isLit(m)
	if !ok || k.Sign() < 0 {
		return "", false
	}
	k1 := new(big.Int).Add(k, big.NewInt(1))
	if new(big.Int).And(k, k1).Sign() != 0 {
		return "", false
	}
	if k.Sign() == 0 {
		return "0", true
	}
	return "(mod " + a + " " + k1.String() + ")", true
}

func (x *Exec) needPow2() {
	x.vc.DeclareRaw("pow2", "(declare-fun pow2 (Int) Int)")
	var facts []string
	for i := 0; i <= 64; i++ {
		facts = append(facts, fmt.Sprintf("(= (pow2 %d) %s)", i, pow2(i).String()))
	}
	x.vc.AddAxiom("pow2.tab", "(assert (and "+strings.Join(facts, " ")+"))", "pow2")
	x.vc.AddAxiom("pow2.pos", "(assert (forall ((k Int)) (! (=> (>= k 0) (>= (pow2 k) 1)) :pattern ((pow2 k)))))", "pow2")
}

func (x *Exec) needBits() {
	for _, f := range []string{"bits.and", "bits.or", "bits.xor", "bits.andnot"} {
		x.vc.DeclareRaw(f, "(declare-fun "+f+" (Int Int) Int)")
	}
	x.vc.AddAxiom("bits.and.bound", "(assert (forall ((a Int) (b Int)) (! (=> (and (>= a 0) (>= b 0)) (and (<= 0 (bits.and a b)) (<= (bits.and a b) a) (<= (bits.and a b) b))) :pattern ((bits.and a b)))))", "bits.and")
	x.vc.AddAxiom("bits.and.bound2", "(assert (forall ((a Int) (b Int)) (! (=> (>= b 0) (and (<= 0 (bits.and a b)) (<= (bits.and a b) b))) :pattern ((bits.and a b)))))", "bits.and")
	x.vc.AddAxiom("bits.or.bound", "(assert (forall ((a Int) (b Int)) (! (=> (and (>= a 0) (>= b 0)) (and (<= a (bits.or a b)) (<= b (bits.or a b)) (<= (bits.or a b) (+ a b)))) :pattern ((bits.or a b)))))", "bits.or")
	x.vc.AddAxiom("bits.xor.bound", "(assert (forall ((a Int) (b Int)) (! (=> (and (>= a 0) (>= b 0)) (and (<= 0 (bits.xor a b)) (<= (bits.xor a b) (+ a b)))) :pattern ((bits.xor a b)))))", "bits.xor")
	x.vc.AddAxiom("bits.andnot.bound", "(assert (forall ((a Int) (b Int)) (! (=> (>= a 0) (and (<= 0 (bits.andnot a b)) (<= (bits.andnot a b) a))) :pattern ((bits.andnot a b)))))", "bits.andnot")
}

// wrapArith: exact wrap for everything except signed 64-bit, where the
// no-overflow assumption (or an overflow obligation) applies.
func (x *Exec) wrapArith(t string, s *Sort) string {
	if s.Bits == 0 {
		return t
	}
	if s.Signed && s.Bits == 64 {
		if x.curSpecOverflow() {
			lo, hi := rangeOf(s)
			x.oblige("overflow", t, "(and (<= "+intLit(lo)+" "+t+") (<= "+t+" "+intLit(hi)+"))", "")
		} else {
			x.assume1("signed 64-bit arithmetic treated as mathematical (no overflow) in " + x.curFnName())
		}
		return t
	}
	if !s.Signed && s.Bits == 64 {
		m := pow2(64).String()
		// single add/sub: one conditional correction keeps terms linear
		if strings.HasPrefix(t, "(+ ") {
			return "(ite (>= " + t + " " + m + ") (- " + t + " " + m + ") " + t + ")"
		}
		if strings.HasPrefix(t, "(- ") {
			return "(ite (< " + t + " 0) (+ " + t + " " + m + ") " + t + ")"
		}
	}
	return x.wrap(t, s)
}

func (x *Exec) bvResize(t string, from *Sort, bits int, satShift bool) string {
	if from.K != SBV {
		return t
	}
	switch {
	case from.Bits == bits:
		return t
	case from.Bits < bits:
		if from.Signed && !satShift {
			return fmt.Sprintf("((_ sign_extend %d) %s)", bits-from.Bits, t)
		}
		return fmt.Sprintf("((_ zero_extend %d) %s)", bits-from.Bits, t)
	default:
		lowp := fmt.Sprintf("((_ extract %d 0) %s)", bits-1, t)
		if satShift {
			// shift count wider than operand: saturate
			return "(ite (bvuge " + t + " " + bvLit(big.NewInt(int64(bits)), from.Bits) + ") " + bvLit(big.NewInt(int64(bits)), bits) + " " + lowp + ")"
		}
		return lowp
	}
}

// convert implements Go numeric conversion between scalar sorts.
func (x *Exec) convert(t string, from, to *Sort) string {
	switch {
	case from.K == SBV && to.K == SBV:
		return x.bvResize(t, from, to.Bits, false)
	case from.K == SInt && to.K == SInt:
		if to.Bits == 0 || from.Bits == 0 {
			return t // spec integers are mathematical
		}
		if from.Bits != 0 {
			flo, fhi := rangeOf(from)
			tlo, thi := rangeOf(to)
			if flo.Cmp(tlo) >= 0 && fhi.Cmp(thi) <= 0 {
				return t
			}
		}
		return x.wrap(t, to)
	case from.K == SInt && to.K == SReal:
		return "(to_real " + t + ")"
	case from.K == SReal && to.K == SInt:
		return "(ite (>= " + t + " 0.0) (to_int " + t + ") (- (to_int (- " + t + "))))"
	case from.K == SReal && to.K == SReal, from.K == SFP && to.K == SFP:
		return t
	case from.K == SBV && to.K == SFP:
		if from.Signed {
			return "((_ to_fp 11 53) RNE " + t + ")"
		}
		return "((_ to_fp_unsigned 11 53) RNE " + t + ")"
	case from.K == SFP && to.K == SBV:
		if to.Signed {
			return fmt.Sprintf("((_ fp.to_sbv %d) RTZ %s)", to.Bits, t)
		}
		return fmt.Sprintf("((_ fp.to_ubv %d) RTZ %s)", to.Bits, t)
	case from.K == SBV && to.K == SReal:
		if from.Signed {
			// signed bv -> int -> real
			n := "(bv2nat " + t + ")"
			return "(to_real (ite (bvslt " + t + " " + bvLit(big.NewInt(0), from.Bits) + ") (- " + n + " " + pow2(from.Bits).String() + ") " + n + "))"
		}
		return "(to_real (bv2nat " + t + "))"
	case from.K == SReal && to.K == SBV:
		return fmt.Sprintf("((_ int2bv %d) (ite (>= %s 0.0) (to_int %s) (- (to_int (- %s)))))", to.Bits, t, t, t)
	case from.K == SInt && to.K == SFP:
		return "((_ to_fp 11 53) RNE (to_real " + t + "))"
	case from.K == SFP && to.K == SInt:
		return "(to_int (fp.to_real (fp.roundToIntegral RTZ " + t + ")))"
	}
	x.unsupported("conversion %s -> %s", from.SMT(), to.SMT())
	return x.vc.Declare("conv", to)
}
