package main

import (
	"regexp"
	"encoding/json"
	"flag"
	"fmt"
	"os"
	"path/filepath"
	"sort"
	"strconv"
	"strings"
	"sync"
	"time"
)

func usage() {
	fmt.Fprintln(os.Stderr, `usage:
  govc check <Cxx> [--tier quick|thorough]   decide one property on /repo's working tree
  govc baseline <Cxx>                        (re)write /verif/baseline/<Cxx>.json from the current run
  govc replay <path>                         re-run a replay file
  govc dump <funckey>                        print SSA and obligations of one function (debug)`)
	os.Exit(2)
}

func main() {
	if len(os.Args) < 2 {
		usage()
	}
	switch os.Args[1] {
	case "check", "baseline":
		fs := flag.NewFlagSet("check", flag.ExitOnError)
		tier := fs.String("tier", envOr("VERIF_TIER", "quick"), "quick|thorough")
		if len(os.Args) < 3 {
			usage()
		}
		id := os.Args[2]
		fs.Parse(os.Args[3:])
		os.Exit(runCheck(id, *tier, os.Args[1] == "baseline"))
	case "replay":
		if len(os.Args) < 3 {
			usage()
		}
		os.Exit(runReplayFile(os.Args[2]))
	case "dump":
		os.Exit(runDump(os.Args[2:]))
	default:
		usage()
	}
}

// outDir: where evidence / replays / SMT files go (scratch runs redirect it).
func outDir() string {
	if d := os.Getenv("VERIF_OUT"); d != "" {
		return d
	}
	return verifDir()
}

func envOr(k, d string) string {
	if v := os.Getenv(k); v != "" {
		return v
	}
	return d
}

type Baseline struct {
	Property string         `json:"property"`
	Names    []string       `json:"obligations"`
	Counts   map[string]int `json:"counts"` // fn#kind -> number of obligations
	// obligations that do not discharge on the unchanged tree: outside the claim, reported as
	// "unproven", never as violations (unless a replay on the real code confirms a failure)
	Unproven []string `json:"unproven_on_unchanged_tree,omitempty"`
}

type KnownFinding struct {
	Property   string `json:"property"`
	Obligation string `json:"obligation"` // exact name or prefix ending with *
	What       string `json:"what"`
	Status     string `json:"status"` // open | fixed
	Commit     string `json:"commit,omitempty"`
}

func loadKnown() []KnownFinding {
	var k struct {
		Findings []KnownFinding `json:"findings"`
	}
	b, err := os.ReadFile(filepath.Join(verifDir(), "known_findings.json"))
	if err != nil {
		return nil
	}
	json.Unmarshal(b, &k)
	return k.Findings
}

func matchKnown(k KnownFinding, name string) bool {
	if strings.HasSuffix(k.Obligation, "*") {
		return strings.HasPrefix(name, strings.TrimSuffix(k.Obligation, "*"))
	}
	return k.Obligation == name
}

var occRe = regexp.MustCompile(`@[0-9]+$`)

// occurrenceFree strips the trailing occurrence counter of an obligation name.
func occurrenceFree(n string) string { return occRe.ReplaceAllString(n, "") }

func stableKind(k string) bool {
	switch {
	case k == "ensures", k == "exit", k == "lemma", k == "vacuity", k == "lockset", k == "static":
		// (frame obligations exist only for the heap maps a body writes: a harmless edit may remove one)
		return true
	case strings.HasPrefix(k, "loop"), strings.HasPrefix(k, "at-call"):
		return true
	}
	return false
}

func runCheck(id, tier string, writeBaseline bool) int {
	t0 := time.Now()
	seed, _ := strconv.Atoi(os.Getenv("VERIF_SEED"))
	specs, err := LoadSpecs(repoDir())
	if err != nil {
		return failRun(id, tier, seed, t0, "contract files do not parse: "+err.Error())
	}
	// select contracts of this property
	var fspecs []*FuncSpec
	pkgSet := map[string]bool{}
	for _, k := range sortedKeys(specs.Funcs) {
		fsp := specs.Funcs[k]
		if fsp.Ext || !hasProp(fsp.Props, id) {
			continue
		}
		if fsp.Trusted || fsp.Iface || fsp.Opaque {
			pkgSet[pkgOfKey(fsp.Key, specs)] = true
			continue
		}
		fspecs = append(fspecs, fsp)
		pkgSet[pkgOfKey(fsp.Key, specs)] = true
	}
	var sweeps []*Sweep
	for _, sw := range specs.Sweeps {
		if hasProp(sw.Props, id) {
			sweeps = append(sweeps, sw)
			pkgSet[sw.Pkg] = true
		}
	}
	var lemmas []*Lemma
	for _, l := range specs.Lemmas {
		if hasProp(l.Props, id) {
			lemmas = append(lemmas, l)
		}
	}
	for _, k := range sortedKeys(specs.Types) {
		ts := specs.Types[k]
		if hasProp(ts.Props, id) {
			pkgSet[k[:strings.LastIndex(k, ".")]] = true
		}
	}
	if len(fspecs) == 0 && len(lemmas) == 0 && len(sweeps) == 0 {
		return failRun(id, tier, seed, t0, "no contracts carry property "+id)
	}
	var patterns []string
	for p := range pkgSet {
		if p != "" {
			patterns = append(patterns, p)
		}
	}
	sort.Strings(patterns)
	var w *World
	if len(patterns) > 0 {
		w, err = LoadWorld(specs, patterns)
		if err != nil {
			return failRun(id, tier, seed, t0, "cannot load packages from "+repoDir()+": "+err.Error())
		}
	} else {
		w = &World{specs: specs, modPath: modulePath, maxInline: 3}
	}
	for _, sw := range sweeps {
		fspecs = append(fspecs, sweepSpecs(w, sw, specs)...)
	}
	if only := os.Getenv("GOVC_ONLY"); only != "" {
		// developer aid: restrict to functions whose key contains the given substring (never used by registered commands)
		var keep []*FuncSpec
		for _, f := range fspecs {
			if strings.Contains(f.Key, only) {
				keep = append(keep, f)
			}
		}
		fspecs = keep
	}
	loadS := time.Since(t0).Seconds()

	// generate obligations, functions in parallel
	results := make([]*FuncResult, len(fspecs)+len(lemmas))
	var wg sync.WaitGroup
	sem := make(chan struct{}, 16)
	for i, fsp := range fspecs {
		wg.Add(1)
		go func(i int, fsp *FuncSpec) {
			defer wg.Done()
			sem <- struct{}{}
			defer func() { <-sem }()
			tg := time.Now()
			results[i] = VerifyFunc(w, fsp, id, false)
			if os.Getenv("GOVC_PROGRESS") != "" {
				fmt.Fprintf(os.Stderr, "gen %-70s %6.1fs obls=%d inferq=%d\n", fsp.Key[len(modulePath):], time.Since(tg).Seconds(), len(results[i].Obls), results[i].InferQueries)
			}
		}(i, fsp)
	}
	for i, l := range lemmas {
		wg.Add(1)
		go func(i int, l *Lemma) {
			defer wg.Done()
			sem <- struct{}{}
			defer func() { <-sem }()
			results[len(fspecs)+i] = VerifyLemma(w, l)
		}(i, l)
	}
	wg.Wait()
	// static analyses (lockset/atomic/confinement) contribute obligations too
	results = append(results, staticChecks(w, id)...)
	var obls []*Obligation
	for _, r := range results {
		if r == nil {
			continue
		}
		for _, o := range r.Obls {
			// only obligations of this property
			obls = append(obls, o)
		}
	}
	genS := time.Since(t0).Seconds() - loadS
	cfg := SolveCfg{OutDir: filepath.Join(outDir(), "out", id), TimeoutS: 45, Par: 8} // 45 s: slow obligations still pass on a loaded machine
	if tier == "thorough" {
		cfg.TimeoutS = 120
		cfg.TwoAgree = true
	}
	os.RemoveAll(cfg.OutDir)
	if writeBaseline {
		cfg.SweepRlimit = 4000000 // admit to the baseline only what discharges with a quarter of the budget
	}
	cfg.Par = 14
	// sweep obligations that arise inside an inlined callee which is itself swept: if the callee's own
	// (context-free) obligation discharges, the one in context holds a fortiori
	var deferred []*Obligation
	standalone := map[string][]*Obligation{}
	for _, o := range obls {
		if !o.Sweep {
			continue
		}
		if o.InlinedFn != "" {
			deferred = append(deferred, o)
			o.Status = "deferred"
		} else {
			standalone[o.Fn+"#"+o.BaseWhat] = append(standalone[o.Fn+"#"+o.BaseWhat], o)
		}
	}
	solveAll(obls, cfg)
	for _, o := range deferred {
		o.Status = ""
		ss := standalone[o.InlinedFn+"#"+o.BaseWhat]
		all := len(ss) > 0
		for _, s := range ss {
			if s.Status != "discharged" {
				all = false
			}
		}
		if all {
			o.Status = "discharged"
			o.Solver = "callee-proof"
			o.Note = "holds for every input of " + o.InlinedFn + " (its own sweep obligation discharged)"
		}
	}
	solveAll(obls, cfg)

	// baseline
	basePath := filepath.Join(verifDir(), "baseline", id+".json")
	var base Baseline
	if b, err := os.ReadFile(basePath); err == nil {
		json.Unmarshal(b, &base)
	}
	counts := map[string]int{}
	for _, o := range obls {
		counts[o.Fn+"#"+o.Kind]++
	}
	if writeBaseline {
		nb := Baseline{Property: id, Counts: counts}
		for _, o := range obls {
			if o.Status == "discharged" {
				nb.Names = append(nb.Names, o.Name)
			} else if os.Getenv("VERIF_BASELINE_ALLOW_UNPROVEN") != "" {
				nb.Unproven = append(nb.Unproven, o.Name)
			}
		}
		sort.Strings(nb.Names)
		sort.Strings(nb.Unproven)
		os.MkdirAll(filepath.Dir(basePath), 0o755)
		b, _ := json.MarshalIndent(nb, "", " ")
		os.WriteFile(basePath, append(b, '\n'), 0o644)
		base = nb
	}
	inBase := map[string]bool{}
	for _, n := range base.Names {
		inBase[n] = true
		// the same clause on a further path (name@2, name@3 ...: a new return, a break out of a loop)
		// is still that clause
		inBase[occurrenceFree(n)] = true
	}
	unprovenBase := map[string]bool{}
	for _, n := range base.Unproven {
		unprovenBase[n] = true
	}
	var unproven []string
	known := loadKnown()

	// verdicts
	var violations, knownLines, undecided []string
	nDis, nBounded := 0, 0
	seen := map[string]bool{}
	replayDir := filepath.Join(outDir(), "replays", id)
	os.RemoveAll(replayDir)
	// replays run in parallel, at most 2 per function
	replayed := map[*Obligation]replayResult{}
	{
		perFn := map[string]int{}
		var todo []*Obligation
		for _, o := range obls {
			if o.Status == "discharged" || o.Status == "" {
				continue
			}
			if panicKind(o.Kind) && perFn[o.Fn] >= 2 {
				continue
			}
			perFn[o.Fn]++
			todo = append(todo, o)
		}
		var mu sync.Mutex
		var wg2 sync.WaitGroup
		sem2 := make(chan struct{}, 8)
		for _, o := range todo {
			wg2.Add(1)
			go func(o *Obligation) {
				defer wg2.Done()
				sem2 <- struct{}{}
				defer func() { <-sem2 }()
				r := tryReplay(w, o, replayDir)
				mu.Lock()
				replayed[o] = r
				mu.Unlock()
			}(o)
		}
		wg2.Wait()
	}
	getReplay := func(o *Obligation) replayResult {
		if r, ok := replayed[o]; ok {
			return r
		}
		return replayResult{false, writeReplayFileRF(replayDir, ReplayFile{Obligation: o.Name, Kind: o.Kind, Status: o.Status, Detail: truncate(o.Model, 2000), Note: "no replay attempted (per-function replay cap reached)"})}
	}
	for _, o := range obls {
		seen[o.Name] = true
		if o.Bounded {
			nBounded++
		}
		if o.Status == "discharged" {
			nDis++
			continue
		}
		// failing obligation
		kf := false
		for _, k := range known {
			if k.Property == id && k.Status == "open" && matchKnown(k, o.Name) {
				knownLines = append(knownLines, fmt.Sprintf("KNOWN-FINDING: property=%s %s — %s", id, o.Name, k.What))
				kf = true
				break
			}
		}
		if kf {
			continue
		}
		if unprovenBase[o.Name] {
			rp := getReplay(o)
			if rp.confirmed {
				violations = append(violations, fmt.Sprintf("VIOLATION property=%s replay=%s", id, rp.path))
			} else {
				unproven = append(unproven, o.Name)
			}
			continue
		}
		structural := disciplineKind(o) || inBase[o.Name] || (stableKind(o.Kind) && inBase[occurrenceFree(o.Name)]) || (base.Counts != nil && base.Counts[o.Fn+"#"+o.Kind] == counts[o.Fn+"#"+o.Kind] && base.Counts[o.Fn+"#"+o.Kind] > 0) || o.Kind == "binding" || o.Kind == "engine" || len(base.Names) == 0
		rp := getReplay(o)
		switch {
		case rp.confirmed:
			violations = append(violations, fmt.Sprintf("VIOLATION property=%s replay=%s", id, rp.path))
		case structural:
			violations = append(violations, fmt.Sprintf("VIOLATION property=%s replay=%s obligation=%q status=%s no-failing-input-found", id, rp.path, o.Name, o.Status))
		default:
			undecided = append(undecided, fmt.Sprintf("UNDECIDED property=%s obligation=%q status=%s (not in the baseline of the unchanged tree; no replayable input)", id, o.Name, o.Status))
		}
	}
	// baseline obligations of stable kinds that are no longer generated
	// an obligation may occur several times (one per return path / call site: name@2, name@3 ...); merging
	// two paths is harmless, so a baseline name counts as still generated when any occurrence of it is
	seenBaseName := map[string]bool{}
	for n := range seen {
		seenBaseName[occurrenceFree(n)] = true
	}
	for _, n := range base.Names {
		if seen[n] || seenBaseName[occurrenceFree(n)] {
			continue
		}
		k := kindOfName(n)
		if stableKind(k) {
			o := &Obligation{Name: n, Kind: "missing", Status: "missing", Model: "obligation of the baseline is no longer generated (contract does not bind or the function/loop disappeared)"}
			rp := writeReplayFile(replayDir, o, "", "")
			violations = append(violations, fmt.Sprintf("VIOLATION property=%s replay=%s obligation=%q status=missing no-failing-input-found", id, rp, n))
		}
	}
	for _, l := range knownLines {
		fmt.Println(l)
	}
	for _, l := range undecided {
		fmt.Println(l)
	}
	for _, l := range violations {
		fmt.Println(l)
	}
	undecided = append(undecided, prefixAll("UNPROVEN (also on the unchanged tree; outside the claim): ", unproven)...)
	if tier == "thorough" && !writeBaseline {
		runCorpus(id)
	}
	writeEvidence(id, tier, seed, t0, results, obls, nDis, nBounded, len(violations), knownLines, undecided, loadS, genS, specs)
	fmt.Printf("govc: property=%s tier=%s functions=%d obligations=%d discharged=%d violations=%d known=%d undecided=%d wall=%.1fs\n",
		id, tier, len(fspecs), len(obls), nDis, len(violations), len(knownLines), len(undecided), time.Since(t0).Seconds())
	if len(violations) > 0 {
		return 1
	}
	return 0
}

// disciplineKind: obligations that enforce a rule at EVERY site (lock held at each access,
// stores to immutable fields, mutation of shared bitmaps, atomics, use after release). A failing
// instance is a violation of the rule even if the site did not exist on the unchanged tree.
func disciplineKind(o *Obligation) bool {
	switch {
	case strings.HasPrefix(o.Kind, "guarded_by"), o.Kind == "lockset", o.Kind == "immutable", o.Kind == "static":
		return true
	case strings.HasPrefix(o.Kind, "pre sync."):
		return true
	case strings.HasPrefix(o.Kind, "pre ") && strings.Contains(o.Name, "created here"):
		return true
	}
	return false
}

func prefixAll(p string, xs []string) []string {
	out := make([]string, len(xs))
	for i, x := range xs {
		out[i] = p + x
	}
	return out
}

func kindOfName(n string) string {
	i := strings.Index(n, "#")
	if i < 0 {
		if strings.HasPrefix(n, "lemma ") {
			return "lemma"
		}
		return ""
	}
	r := n[i+1:]
	if j := strings.Index(r, ":"); j >= 0 {
		return r[:j]
	}
	return r
}

func pkgOfKey(key string, specs *Specs) string {
	// keys are pkgpath.[Recv.]Name; package path = up to the first '.' after the last '/'
	i := strings.LastIndex(key, "/")
	j := strings.Index(key[i+1:], ".")
	if j < 0 {
		return key
	}
	return key[:i+1+j]
}

func failRun(id, tier string, seed int, t0 time.Time, msg string) int {
	replayDir := filepath.Join(outDir(), "replays", id)
	o := &Obligation{Name: id + "#setup", Kind: "engine", Status: "error", Model: msg}
	p := writeReplayFile(replayDir, o, "", "")
	fmt.Printf("VIOLATION property=%s replay=%s reason=%q no-failing-input-found\n", id, p, msg)
	ev := map[string]interface{}{
		"property_id": id, "tier": tier, "seed": seed, "level": "other",
		"coverage":   map[string]interface{}{"explanation": "check could not run: " + msg, "evaluations": 0, "distinct_nontrivial": 0},
		"wall_s":     time.Since(t0).Seconds(), "violations": 1,
		"assumptions": []string{},
	}
	b, _ := json.MarshalIndent(ev, "", " ")
	os.MkdirAll(filepath.Join(outDir(), "evidence"), 0o755)
	os.WriteFile(filepath.Join(outDir(), "evidence", id+".json"), b, 0o644)
	return 1
}

func writeEvidence(id, tier string, seed int, t0 time.Time, results []*FuncResult, obls []*Obligation, nDis, nBounded, nViol int, known, undecided []string, loadS, genS float64, specs *Specs) {
	type fnRec struct {
		Name       string   `json:"name"`
		SourceHash string   `json:"source_sha256_prefix,omitempty"`
		Mode       string   `json:"mode,omitempty"`
		Obls       int      `json:"obligations"`
		Abstracted []string `json:"abstracted_or_unsupported,omitempty"`
		Inlined    []string `json:"inlined_callees,omitempty"`
		SSAKinds   []string `json:"ssa_instruction_kinds,omitempty"`
	}
	var fns []fnRec
	assume := map[string]bool{}
	trusted := map[string]bool{}
	for _, r := range results {
		if r == nil {
			continue
		}
		fns = append(fns, fnRec{r.Fn, r.Hash, r.Mode, len(r.Obls), r.Unsup, r.Inlined, r.InstrKinds})
		for _, a := range r.Assumes {
			assume[a] = true
		}
		for _, t := range r.Trusted {
			trusted["assumed contract: "+t] = true
		}
		for _, u := range r.Unsup {
			assume["abstracted (value unconstrained): "+u] = true
		}
	}
	byBackend := map[string]int{}
	solverTime := 0.0
	var samples []map[string]interface{}
	for _, o := range obls {
		byBackend[o.Solver]++
		solverTime += o.TimeS
	}
	// samples: the slowest and a few representative obligations
	sorted := append([]*Obligation{}, obls...)
	sort.SliceStable(sorted, func(i, j int) bool { return sorted[i].TimeS > sorted[j].TimeS })
	for i, o := range sorted {
		if i >= 12 {
			break
		}
		samples = append(samples, map[string]interface{}{"obligation": o.Name, "status": o.Status, "solver": o.Solver, "time_s": round3(o.TimeS), "smt_bytes": o.SMTSize})
	}
	var failing []map[string]interface{}
	for _, o := range obls {
		if o.Status != "discharged" {
			failing = append(failing, map[string]interface{}{"obligation": o.Name, "status": o.Status, "detail": truncate(o.Model, 400)})
		}
	}
	tb := []string{"go/packages + go/types + go/ssa (NaiveForm) as a faithful IR of /repo's working tree", "govc (this VC generator: memory model, loop cutting, call abstraction)", "z3 5.1.0 (z3-new), z3 4.8.12, cvc5 1.0.3: one unsat answer discharges (thorough: two agreeing)", "Go memory model / mutex / channel semantics are not modelled"}
	for t := range trusted {
		tb = append(tb, t)
	}
	sort.Strings(tb[4:])
	as := []string{}
	for a := range assume {
		as = append(as, a)
	}
	sort.Strings(as)
	level := checkLevel(id)
	nUnprovenBase := 0
	for _, u := range undecided {
		if strings.HasPrefix(u, "UNPROVEN") {
			nUnprovenBase++
		}
	}
	nonBounded := len(obls) - nBounded - nUnprovenBase - len(known)
	cov := map[string]interface{}{
		"obligations":               nonBounded,
		"discharged":                nDis,
		"checker_cmd":               fmt.Sprintf("/verif/bin/govc check %s --tier %s", id, tier),
		"trusted_base":              tb,
		"samples":                   samples,
		"functions_under_contract":  fns,
		"by_backend":                byBackend,
		"solver_time_s":             round3(solverTime),
		"load_s":                    round3(loadS),
		"generate_s":                round3(genS),
		"bounded_obligations":       nBounded,
		"selftest_corpus":           corpusResults,
		"not_discharged":            failing,
		"known_findings":            known,
		"undecided":                 undecided,
		"contract_files":            specs.Files,
		"explanation":               "contract-based deductive verification: every obligation generated from /repo's current source for the contracts tagged " + id + " was sent to SMT solvers; see functions_under_contract and samples",
		"evaluations":               len(obls),
		"distinct_nontrivial":       countNontrivial(obls),
		"rule":                      "one evaluation = one generated proof obligation; non-trivial = needed an SMT solver (not syntactically true) and has a distinct name",
	}
	ev := map[string]interface{}{
		"property_id": id, "tier": tier, "seed": seed, "level": level, "coverage": cov,
		"assumptions": as, "wall_s": round3(time.Since(t0).Seconds()), "violations": nViol,
	}
	b, _ := json.MarshalIndent(ev, "", " ")
	os.MkdirAll(filepath.Join(outDir(), "evidence"), 0o755)
	os.WriteFile(filepath.Join(outDir(), "evidence", id+".json"), append(b, '\n'), 0o644)
}

func countNontrivial(obls []*Obligation) int {
	seen := map[string]bool{}
	for _, o := range obls {
		if o.Solver != "trivial" && o.Solver != "" {
			seen[o.Name] = true
		}
	}
	return len(seen)
}

func round3(f float64) float64 { return float64(int(f*1000+0.5)) / 1000 }

func truncate(s string, n int) string {
	if len(s) > n {
		return s[:n] + "…"
	}
	return s
}

// checkLevel: the category registered in MANIFEST.json for the property.
func checkLevel(id string) string {
	b, err := os.ReadFile(filepath.Join(verifDir(), "MANIFEST.json"))
	if err != nil {
		return "proof"
	}
	var m struct {
		Checks []struct {
			PropertyID string `json:"property_id"`
			Level      struct {
				Category string `json:"category"`
			} `json:"level_claimed"`
		} `json:"checks"`
	}
	json.Unmarshal(b, &m)
	for _, c := range m.Checks {
		if c.PropertyID == id {
			return c.Level.Category
		}
	}
	return "proof"
}
