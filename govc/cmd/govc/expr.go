package main

// Expression language of the contracts: Go expression syntax plus
//   ==>  <==>  forall x T, y U :: e   exists x T :: e   old(e)   ite(c,a,b)
//   a[i := v]   (array update)      result / named results
// Own Pratt parser because go/parser cannot parse quantifiers.

import (
	"fmt"
	"strings"
	"unicode"
)

type Expr interface{ String() string }

type (
	EIdent struct{ Name string }
	EInt   struct{ V string } // decimal or 0x..
	EFloat struct{ V string }
	EBool  struct{ V bool }
	EStr   struct{ V string }
	ENil   struct{}
	EUnary struct {
		Op string
		X  Expr
	}
	EBin struct {
		Op   string
		X, Y Expr
	}
	ECall struct {
		Fn   string
		Args []Expr
	}
	EIndex struct{ X, I Expr }
	EUpd   struct{ X, I, V Expr }
	ESel   struct {
		X Expr
		F string
	}
	ESlice struct{ X, Lo, Hi Expr }
	EQuant struct {
		Forall bool
		Vars   []QVar
		Body   Expr
	}
	QVar struct{ Name, Type string }
)

func (e EIdent) String() string { return e.Name }
func (e EInt) String() string   { return e.V }
func (e EFloat) String() string { return e.V }
func (e EBool) String() string  { return fmt.Sprint(e.V) }
func (e EStr) String() string   { return fmt.Sprintf("%q", e.V) }
func (e ENil) String() string   { return "nil" }
func (e EUnary) String() string { return e.Op + e.X.String() }
func (e EBin) String() string   { return "(" + e.X.String() + " " + e.Op + " " + e.Y.String() + ")" }
func (e ECall) String() string {
	s := make([]string, len(e.Args))
	for i, a := range e.Args {
		s[i] = a.String()
	}
	return e.Fn + "(" + strings.Join(s, ", ") + ")"
}
func (e EIndex) String() string { return e.X.String() + "[" + e.I.String() + "]" }
func (e EUpd) String() string {
	return e.X.String() + "[" + e.I.String() + " := " + e.V.String() + "]"
}
func (e ESel) String() string { return e.X.String() + "." + e.F }
func (e ESlice) String() string {
	lo, hi := "", ""
	if e.Lo != nil {
		lo = e.Lo.String()
	}
	if e.Hi != nil {
		hi = e.Hi.String()
	}
	return e.X.String() + "[" + lo + ":" + hi + "]"
}
func (e EQuant) String() string {
	k := "exists"
	if e.Forall {
		k = "forall"
	}
	vs := make([]string, len(e.Vars))
	for i, v := range e.Vars {
		vs[i] = v.Name + " " + v.Type
	}
	return "(" + k + " " + strings.Join(vs, ", ") + " :: " + e.Body.String() + ")"
}

type tok struct {
	k string // id int float str op eof
	s string
}

type lexer struct {
	src  string
	toks []tok
	p    int
}

var ops3 = []string{"<==>", "==>", "&^=", "<<=", ">>="}
var ops2 = []string{"::", ":=", "==", "!=", "<=", ">=", "&&", "||", "<<", ">>", "&^"}

func lex(src string) ([]tok, error) {
	var out []tok
	i := 0
	for i < len(src) {
		c := src[i]
		switch {
		case c == ' ' || c == '\t' || c == '\n' || c == '\r':
			i++
		case unicode.IsLetter(rune(c)) || c == '_':
			j := i
			for j < len(src) && (unicode.IsLetter(rune(src[j])) || unicode.IsDigit(rune(src[j])) || src[j] == '_' || src[j] == '$') {
				j++
			}
			out = append(out, tok{"id", src[i:j]})
			i = j
		case unicode.IsDigit(rune(c)):
			j := i
			isf := false
			if c == '0' && j+1 < len(src) && (src[j+1] == 'x' || src[j+1] == 'X') {
				j += 2
				for j < len(src) && (unicode.IsDigit(rune(src[j])) || strings.ContainsRune("abcdefABCDEF_", rune(src[j]))) {
					j++
				}
			} else {
				for j < len(src) && (unicode.IsDigit(rune(src[j])) || src[j] == '.' || src[j] == '_') {
					if src[j] == '.' {
						isf = true
					}
					j++
				}
			}
			k := "int"
			if isf {
				k = "float"
			}
			out = append(out, tok{k, strings.ReplaceAll(src[i:j], "_", "")})
			i = j
		case c == '"':
			j := i + 1
			for j < len(src) && src[j] != '"' {
				if src[j] == '\\' {
					j++
				}
				j++
			}
			if j >= len(src) {
				return nil, fmt.Errorf("unterminated string")
			}
			out = append(out, tok{"str", src[i+1 : j]})
			i = j + 1
		default:
			matched := false
			for _, set := range [][]string{ops3, ops2} {
				for _, o := range set {
					if strings.HasPrefix(src[i:], o) {
						out = append(out, tok{"op", o})
						i += len(o)
						matched = true
						break
					}
				}
				if matched {
					break
				}
			}
			if !matched {
				out = append(out, tok{"op", string(c)})
				i++
			}
		}
	}
	out = append(out, tok{"eof", ""})
	return out, nil
}

type parser struct {
	toks []tok
	p    int
}

func (p *parser) peek() tok { return p.toks[p.p] }
func (p *parser) next() tok { t := p.toks[p.p]; p.p++; return t }
func (p *parser) accept(s string) bool {
	if p.peek().k == "op" && p.peek().s == s {
		p.p++
		return true
	}
	return false
}
func (p *parser) expect(s string) error {
	if !p.accept(s) {
		return fmt.Errorf("expected %q, got %q", s, p.peek().s)
	}
	return nil
}

func ParseExpr(src string) (Expr, error) {
	toks, err := lex(src)
	if err != nil {
		return nil, err
	}
	p := &parser{toks: toks}
	e, err := p.expr(0)
	if err != nil {
		return nil, fmt.Errorf("%v in %q", err, src)
	}
	if p.peek().k != "eof" {
		return nil, fmt.Errorf("trailing %q in %q", p.peek().s, src)
	}
	return e, nil
}

// binding powers
var binPrec = map[string]int{
	"<==>": 1, "==>": 2, "||": 3, "&&": 4,
	"==": 5, "!=": 5, "<": 5, "<=": 5, ">": 5, ">=": 5,
	"+": 6, "-": 6, "|": 6, "^": 6,
	"*": 7, "/": 7, "%": 7, "<<": 7, ">>": 7, "&": 7, "&^": 7,
}

func (p *parser) expr(min int) (Expr, error) {
	lhs, err := p.unary()
	if err != nil {
		return nil, err
	}
	for {
		t := p.peek()
		if t.k != "op" {
			break
		}
		pr, ok := binPrec[t.s]
		if !ok || pr < min {
			break
		}
		p.next()
		nmin := pr + 1
		if t.s == "==>" { // right assoc
			nmin = pr
		}
		rhs, err := p.expr(nmin)
		if err != nil {
			return nil, err
		}
		lhs = EBin{t.s, lhs, rhs}
	}
	return lhs, nil
}

func (p *parser) unary() (Expr, error) {
	t := p.peek()
	if t.k == "op" && (t.s == "!" || t.s == "-" || t.s == "^") {
		p.next()
		x, err := p.unary()
		if err != nil {
			return nil, err
		}
		return EUnary{t.s, x}, nil
	}
	return p.postfix()
}

func (p *parser) typeName() (string, error) {
	// simple types: ident, map[K]V, set[T], []T, *T, pkg.T
	t := p.next()
	if t.k == "op" && t.s == "[" {
		if err := p.expect("]"); err != nil {
			return "", err
		}
		e, err := p.typeName()
		return "[]" + e, err
	}
	if t.k == "op" && t.s == "*" {
		e, err := p.typeName()
		return "*" + e, err
	}
	if t.k != "id" {
		return "", fmt.Errorf("type expected, got %q", t.s)
	}
	if t.s == "map" {
		if err := p.expect("["); err != nil {
			return "", err
		}
		k, err := p.typeName()
		if err != nil {
			return "", err
		}
		if err := p.expect("]"); err != nil {
			return "", err
		}
		v, err := p.typeName()
		return "map[" + k + "]" + v, err
	}
	if t.s == "set" {
		if err := p.expect("["); err != nil {
			return "", err
		}
		k, err := p.typeName()
		if err != nil {
			return "", err
		}
		if err := p.expect("]"); err != nil {
			return "", err
		}
		return "map[" + k + "]bool", nil
	}
	name := t.s
	for p.peek().k == "op" && p.peek().s == "." {
		p.next()
		n := p.next()
		name += "." + n.s
	}
	return name, nil
}

func (p *parser) postfix() (Expr, error) {
	t := p.next()
	var e Expr
	switch t.k {
	case "int":
		e = EInt{t.s}
	case "float":
		e = EFloat{t.s}
	case "str":
		e = EStr{t.s}
	case "id":
		switch t.s {
		case "true":
			e = EBool{true}
		case "false":
			e = EBool{false}
		case "nil":
			e = ENil{}
		case "forall", "exists":
			var vars []QVar
			for {
				n := p.next()
				if n.k != "id" {
					return nil, fmt.Errorf("quantifier variable expected")
				}
				ty, err := p.typeName()
				if err != nil {
					return nil, err
				}
				vars = append(vars, QVar{n.s, ty})
				if !p.accept(",") {
					break
				}
			}
			if err := p.expect("::"); err != nil {
				return nil, err
			}
			body, err := p.expr(0)
			if err != nil {
				return nil, err
			}
			return EQuant{t.s == "forall", vars, body}, nil
		default:
			e = EIdent{t.s}
		}
	case "op":
		if t.s == "(" {
			x, err := p.expr(0)
			if err != nil {
				return nil, err
			}
			if err := p.expect(")"); err != nil {
				return nil, err
			}
			e = x
		} else {
			return nil, fmt.Errorf("unexpected %q", t.s)
		}
	default:
		return nil, fmt.Errorf("unexpected end")
	}
	for {
		switch {
		case p.accept("("):
			id, ok := e.(EIdent)
			var fn string
			if ok {
				fn = id.Name
			} else if s, ok := e.(ESel); ok {
				fn = s.String()
			} else {
				return nil, fmt.Errorf("call of non-identifier")
			}
			var args []Expr
			if !p.accept(")") {
				for {
					a, err := p.expr(0)
					if err != nil {
						return nil, err
					}
					args = append(args, a)
					if p.accept(")") {
						break
					}
					if err := p.expect(","); err != nil {
						return nil, err
					}
				}
			}
			e = ECall{fn, args}
		case p.accept("["):
			if p.accept(":") {
				hi, err := p.expr(0)
				if err != nil {
					return nil, err
				}
				if err := p.expect("]"); err != nil {
					return nil, err
				}
				e = ESlice{e, nil, hi}
				continue
			}
			i, err := p.expr(0)
			if err != nil {
				return nil, err
			}
			if p.accept(":=") {
				v, err := p.expr(0)
				if err != nil {
					return nil, err
				}
				if err := p.expect("]"); err != nil {
					return nil, err
				}
				e = EUpd{e, i, v}
			} else if p.accept(":") {
				var hi Expr
				if !p.accept("]") {
					hi, err = p.expr(0)
					if err != nil {
						return nil, err
					}
					if err := p.expect("]"); err != nil {
						return nil, err
					}
				}
				e = ESlice{e, i, hi}
			} else {
				if err := p.expect("]"); err != nil {
					return nil, err
				}
				e = EIndex{e, i}
			}
		case p.accept("."):
			n := p.next()
			if n.k != "id" {
				return nil, fmt.Errorf("field name expected")
			}
			e = ESel{e, n.s}
		default:
			return e, nil
		}
	}
}
