package index

import (
	"sync"
	"testing"
)

// F14: index.Writer.Stats() copies the counters with plain loads while every writer goroutine
// updates them with sync/atomic: a data race (run with -race).
func TestVerifReplayF14(t *testing.T) {
	cfg, cleanup := CreateConfig("VerifReplayF14")
	defer func() { _ = cleanup() }()
	w, err := OpenWriter(cfg)
	if err != nil {
		t.Fatal(err)
	}
	var wg sync.WaitGroup
	wg.Add(1)
	go func() {
		defer wg.Done()
		for i := 0; i < 20; i++ {
			doc := &FakeDocument{NewFakeField("_id", "1", true, false, false), NewFakeField("name", "test", false, false, true)}
			b := NewBatch()
			b.Update(testIdentifier("1"), doc)
			_ = w.Batch(b)
		}
	}()
	for i := 0; i < 2000; i++ {
		_ = w.Stats()
	}
	wg.Wait()
	_ = w.Close()
}
