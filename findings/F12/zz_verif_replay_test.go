package searcher

import (
	"testing"

	"github.com/blugelabs/bluge/search"
)

// a clause searcher over a fixed list of document numbers, every match scoring 1
type verifListSearcher struct {
	nums []uint64
	pos  int
}

func (l *verifListSearcher) Next(ctx *search.Context) (*search.DocumentMatch, error) {
	if l.pos >= len(l.nums) {
		return nil, nil
	}
	dm := ctx.DocumentMatchPool.Get()
	dm.Number = l.nums[l.pos]
	dm.Score = 1
	l.pos++
	return dm, nil
}

func (l *verifListSearcher) Advance(ctx *search.Context, number uint64) (*search.DocumentMatch, error) {
	for l.pos < len(l.nums) && l.nums[l.pos] < number {
		l.pos++
	}
	return l.Next(ctx)
}

func (l *verifListSearcher) Close() error               { return nil }
func (l *verifListSearcher) Count() uint64              { return uint64(len(l.nums)) }
func (l *verifListSearcher) Min() int                   { return 0 }
func (l *verifListSearcher) Size() int                  { return 0 }
func (l *verifListSearcher) DocumentMatchPoolSize() int { return 1 }

type verifSumScorer struct{}

func (verifSumScorer) ScoreComposite(cs []*search.DocumentMatch) (rv float64) {
	for _, c := range cs {
		rv += c.Score
	}
	return rv
}

func (verifSumScorer) ExplainComposite(cs []*search.DocumentMatch) *search.Explanation {
	return search.NewExplanation(verifSumScorer{}.ScoreComposite(cs), "sum")
}

// F12: document 12 matches the must clause AND the should clause, so it must score 2 however the
// searcher gets there. Reached with Advance(12) after one Next (which already positioned the should
// cursor on 12), the should match was thrown away and the document scored 1.
func TestVerifReplayF12(t *testing.T) {
	score := func(viaAdvance bool) float64 {
		must := &verifListSearcher{nums: []uint64{1, 2, 3, 12, 13}}
		should := &verifListSearcher{nums: []uint64{12, 20}}
		bs, err := NewBooleanSearcher(must, should, nil, verifSumScorer{}, search.SearcherOptions{})
		if err != nil {
			t.Fatal(err)
		}
		ctx := search.NewSearchContext(10, 0)
		var dm *search.DocumentMatch
		if viaAdvance {
			if _, err = bs.Next(ctx); err != nil { // document 1
				t.Fatal(err)
			}
			dm, err = bs.Advance(ctx, 12)
		} else {
			for dm, err = bs.Next(ctx); err == nil && dm != nil && dm.Number != 12; dm, err = bs.Next(ctx) {
			}
		}
		if err != nil || dm == nil || dm.Number != 12 {
			t.Fatalf("expected document 12, got %v %v", dm, err)
		}
		return dm.Score
	}
	if a, n := score(true), score(false); a != n {
		t.Errorf("REPLAY-CONFIRMED: document 12 scores %v when reached with Advance(12) and %v when reached with Next", a, n)
	}
}
