package bluge

import (
	"context"
	"testing"

	"github.com/blugelabs/bluge/search"
	"github.com/blugelabs/bluge/search/aggregations"
)

// two aggregations over the same field in one request
func TestF17TwoAggregationsSameField(t *testing.T) {
	cfg := InMemoryOnlyConfig()
	w, err := OpenWriter(cfg)
	if err != nil {
		t.Fatal(err)
	}
	defer w.Close()
	b := NewBatch()
	for i, p := range []float64{10, 20, 30} {
		d := NewDocument(string(rune('a' + i))).AddField(NewNumericField("price", p).Aggregatable())
		b.Update(d.ID(), d)
	}
	if err := w.Batch(b); err != nil {
		t.Fatal(err)
	}
	r, err := w.Reader()
	if err != nil {
		t.Fatal(err)
	}
	defer r.Close()
	run := func(two bool, sortByPrice bool) (float64, float64) {
		req := NewTopNSearch(10, NewMatchAllQuery())
		if sortByPrice {
			req.SortBy([]string{"price"})
		}
		req.AddAggregation("sum", aggregations.Sum(search.Field("price")))
		if two {
			req.AddAggregation("max", aggregations.Max(search.Field("price")))
		}
		it, err := r.Search(context.Background(), req)
		if err != nil {
			t.Fatal(err)
		}
		for m, err := it.Next(); m != nil || err != nil; m, err = it.Next() {
			if err != nil {
				t.Fatal(err)
			}
		}
		return it.Aggregations().Metric("sum"), it.Aggregations().Metric("count")
	}
	for _, c := range []struct{ two, s bool }{{false, false}, {true, false}, {false, true}, {true, true}} {
		sum, cnt := run(c.two, c.s)
		t.Logf("two=%v sortByPrice=%v sum=%v count=%v", c.two, c.s, sum, cnt)
		if sum != 60 {
			t.Errorf("two=%v sortByPrice=%v: sum of price = %v, want 60", c.two, c.s, sum)
		}
	}
}
