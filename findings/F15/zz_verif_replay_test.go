package bluge

import (
	"context"
	"testing"

	"github.com/blugelabs/bluge/search"
)

// F15: a search-before request reverses the caller's *search.Sort objects in place
// (SortOrder.Copy is shallow, Reverse writes through the shared pointers), so the same
// request - or any other request sharing the sort order - ranks differently afterwards.
func TestVerifReplayF15(t *testing.T) {
	cfg := InMemoryOnlyConfig()
	w, err := OpenWriter(cfg)
	if err != nil {
		t.Fatal(err)
	}
	defer w.Close()
	for _, n := range []string{"a", "b", "c", "d", "e"} {
		doc := NewDocument(n).AddField(NewKeywordField("name", n).Sortable())
		if err := w.Update(doc.ID(), doc); err != nil {
			t.Fatal(err)
		}
	}
	r, err := w.Reader()
	if err != nil {
		t.Fatal(err)
	}
	defer r.Close()

	names := func(req SearchRequest) (out string) {
		it, err := r.Search(context.Background(), req)
		if err != nil {
			t.Fatal(err)
		}
		for m, err := it.Next(); m != nil && err == nil; m, err = it.Next() {
			_ = m.VisitStoredFields(func(field string, value []byte) bool {
				if field == "_id" {
					out += string(value)
				}
				return true
			})
		}
		return out
	}

	order := search.SortOrder{search.SortBy(search.Field("name"))}
	before := NewTopNSearch(2, NewMatchAllQuery()).SortByCustom(order).Before([][]byte{[]byte("d")})
	first := names(before)
	second := names(before)
	if first != second {
		t.Errorf("REPLAY-CONFIRMED: the same search-before request returns %q, then %q", first, second)
	}
	plain := names(NewTopNSearch(5, NewMatchAllQuery()).SortByCustom(search.SortOrder{search.SortBy(search.Field("name"))}))
	shared := names(NewTopNSearch(5, NewMatchAllQuery()).SortByCustom(order))
	if plain != shared {
		t.Errorf("REPLAY-CONFIRMED: ascending order by name is %q, but %q with the sort order a search-before request used", plain, shared)
	}
}
