package index

import (
	"io"
	"os"
	"path/filepath"
	"testing"

	segment "github.com/blugelabs/bluge_segment_api"
)

type verifF13Dir struct {
	Directory
	open int
}

type verifF13Closer struct {
	c io.Closer
	d *verifF13Dir
}

func (c *verifF13Closer) Close() error { c.d.open--; return c.c.Close() }

func (d *verifF13Dir) Load(kind string, id uint64) (*segment.Data, io.Closer, error) {
	data, closer, err := d.Directory.Load(kind, id)
	if err == nil && closer != nil {
		d.open++
		closer = &verifF13Closer{closer, d}
	}
	return data, closer, err
}

// F13: a snapshot whose LAST segment file cannot be loaded is rejected, but the segment files
// loaded before it stay open (one file handle / mapping leaked per segment and per attempt).
func TestVerifReplayF13(t *testing.T) {
	cfg, cleanup := CreateConfig("verifF13")
	defer func() { _ = cleanup() }()
	w, err := OpenWriter(cfg)
	if err != nil {
		t.Fatal(err)
	}
	for _, id := range []string{"a", "b"} {
		b := NewBatch()
		b.Update(testIdentifier(id), &FakeDocument{NewFakeField("_id", id, true, false, false)})
		if err := w.Batch(b); err != nil { // safe batch: returns once the segment and snapshot are on disk
			t.Fatal(err)
		}
	}
	if err := w.Close(); err != nil {
		t.Fatal(err)
	}
	dir := cfg.DirectoryFunc().(*FileSystemDirectory)
	segs, err := dir.List(ItemKindSegment)
	if err != nil || len(segs) < 2 {
		t.Skipf("need two segment files, have %v (%v)", segs, err)
	}
	// newest segment file disappears (torn directory)
	var newest uint64
	for _, id := range segs {
		if id > newest {
			newest = id
		}
	}
	matches, _ := filepath.Glob(filepath.Join(dir.path, "*"+ItemKindSegment))
	removed := false
	for _, m := range matches {
		if filepath.Base(m) == dir.fileName(ItemKindSegment, newest) {
			removed = os.Remove(m) == nil
		}
	}
	if !removed {
		t.Skipf("could not remove the newest segment file among %v", matches)
	}
	cd := &verifF13Dir{}
	inner := cfg.DirectoryFunc
	cfg.DirectoryFunc = func() Directory { cd.Directory = inner(); return cd }
	r, err := OpenReader(cfg)
	if err == nil {
		_ = r.Close()
		t.Skip("the reader fell back to an older snapshot; nothing to observe")
	}
	if cd.open != 0 {
		t.Errorf("REPLAY-CONFIRMED: OpenReader failed (%v) and left %d segment handle(s) open", err, cd.open)
	}
}
