package index

import (
	"errors"
	"io"
	"testing"

	segment "github.com/blugelabs/bluge_segment_api"
)

func verifTryF4(f func()) (p interface{}) {
	defer func() { p = recover() }()
	f()
	return nil
}

// F4: closing an offline writer that received no batch must not panic (C08: "including the empty one").
func TestVerifReplayF4(t *testing.T) {
	cfg, cleanup := CreateConfig("verifF4")
	defer func() { _ = cleanup() }()
	w, err := OpenOfflineWriter(cfg)
	if err != nil {
		t.Fatal(err)
	}
	var cerr error
	if p := verifTryF4(func() { cerr = w.Close() }); p != nil {
		t.Fatalf("REPLAY-CONFIRMED: WriterOffline.Close with no batch panics: %v", p)
	}
	if cerr != nil {
		t.Fatalf("REPLAY-CONFIRMED: WriterOffline.Close with no batch fails: %v", cerr)
	}
	// like an online writer that never received a batch, nothing is recorded: the directory
	// simply holds no snapshot yet, and a writer can be opened on it again
	w2, err := OpenWriter(cfg)
	if err != nil {
		t.Fatalf("REPLAY-CONFIRMED: directory left by an offline writer without batches does not open: %v", err)
	}
	_ = w2.Close()
}

type verifCountingDir struct {
	Directory
	open        int
	failSnapshot bool
}

type verifCloser struct {
	c io.Closer
	d *verifCountingDir
}

func (c *verifCloser) Close() error { c.d.open--; return c.c.Close() }

func (d *verifCountingDir) Load(kind string, id uint64) (*segment.Data, io.Closer, error) {
	data, closer, err := d.Directory.Load(kind, id)
	if err == nil && closer != nil {
		d.open++
		closer = &verifCloser{closer, d}
	}
	return data, closer, err
}

func (d *verifCountingDir) Persist(kind string, id uint64, w WriterTo, closeCh chan struct{}) error {
	if d.failSnapshot && kind == ItemKindSnapshot {
		return errors.New("disk full")
	}
	return d.Directory.Persist(kind, id, w, closeCh)
}

// F16: when recording the snapshot fails, Close returns the error without closing the segment it opened.
func TestVerifReplayF16(t *testing.T) {
	cfg, cleanup := CreateConfig("verifF16")
	defer func() { _ = cleanup() }()
	inner := cfg.DirectoryFunc
	cd := &verifCountingDir{failSnapshot: true}
	cfg.DirectoryFunc = func() Directory { cd.Directory = inner(); return cd }
	w, err := OpenOfflineWriter(cfg)
	if err != nil {
		t.Fatal(err)
	}
	b := NewBatch()
	b.Insert(&FakeDocument{NewFakeField("_id", "a", true, false, false)})
	if err := w.Batch(b); err != nil {
		t.Fatal(err)
	}
	err = w.Close()
	if err == nil {
		t.Fatal("expected the injected failure")
	}
	if cd.open != 0 {
		t.Errorf("REPLAY-CONFIRMED: WriterOffline.Close failed (%v) and left %d segment handle(s) open", err, cd.open)
	}
}
