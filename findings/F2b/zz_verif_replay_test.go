package index

import (
	"os"
	"path/filepath"
	"testing"
)

// F2b: one flipped byte in the CRC trailer of the newest snapshot: the CRC-mismatch error is
// formatted from bytes of the mmap AFTER the file was unmapped -> the process dies with SIGSEGV.
func TestVerifReplayF2b(t *testing.T) {
	dir := t.TempDir()
	cfg := DefaultConfig(dir).WithPersisterNapTimeMSec(1).
		WithNormCalc(func(_ string, numTerms int) float32 { return float32(numTerms) }).
		WithVirtualField(NewFakeField("", "", false, false, false))
	w, err := OpenWriter(cfg)
	if err != nil {
		t.Fatal(err)
	}
	doc := &FakeDocument{NewFakeField("_id", "1", true, false, false), NewFakeField("name", "test", false, false, true)}
	b0 := NewBatch()
	b0.Update(testIdentifier("1"), doc)
	if err = w.Batch(b0); err != nil {
		t.Fatal(err)
	}
	if err = w.Close(); err != nil {
		t.Fatal(err)
	}
	snaps, _ := filepath.Glob(filepath.Join(dir, "*.snp"))
	if len(snaps) == 0 {
		// an empty index may not have written a snapshot: force one through a batch-less close is
		// not possible, so write a minimal valid-looking file instead
		t.Fatal("no snapshot file produced")
	}
	b, _ := os.ReadFile(snaps[len(snaps)-1])
	b[len(b)-1] ^= 0xff
	if err = os.WriteFile(snaps[len(snaps)-1], b, 0600); err != nil {
		t.Fatal(err)
	}
	_, err = OpenReader(cfg)
	t.Logf("OpenReader returned (no crash): %v", err)
}
