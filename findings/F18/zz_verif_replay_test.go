package index

import (
	"bytes"
	"io"
	"testing"
)

// a snapshot whose last segment has a short type name and no deletions
func TestF18ShortSegmentTypeRoundTrip(t *testing.T) {
	for _, typ := range []string{"ice", "ab", "x", ""} {
		var buf bytes.Buffer
		chw := newCountHashWriter(&buf)
		intBuf := make([]byte, 10)
		intBuf[0] = blugeSnapshotFormatVersion1
		chw.Write(intBuf[:1])
		intBuf[0] = 1 // one segment
		chw.Write(intBuf[:1])
		if _, err := recordSegment(chw, &segmentSnapshot{id: 7}, 7, typ, 1); err != nil {
			t.Fatal(err)
		}
		body := buf.Bytes()
		snap := &Snapshot{epoch: 1}
		_, err := snap.ReadFrom(io.LimitReader(bytes.NewReader(body), int64(len(body))))
		if err != nil {
			t.Errorf("type %q: %d-byte body written by recordSegment rejected: %v", typ, len(body), err)
			continue
		}
		if len(snap.segment) != 1 || snap.segment[0].segmentType != typ || snap.segment[0].id != 7 {
			t.Errorf("type %q: read back %+v", typ, snap.segment)
		}
	}
}
