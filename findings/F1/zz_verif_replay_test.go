package index

import (
	"bytes"
	"io"
	"os"
	"path/filepath"
	"testing"
)

type verifBytesItem []byte

func (b verifBytesItem) WriteTo(w io.Writer, _ chan struct{}) (int64, error) {
	n, err := w.Write(b)
	return int64(n), err
}

// F1: Persist over an existing longer file of the same name must leave exactly the new bytes.
func TestVerifReplayF1(t *testing.T) {
	dir := t.TempDir()
	d := NewFileSystemDirectory(dir)
	if err := d.Persist(ItemKindSegment, 7, verifBytesItem(bytes.Repeat([]byte{'a'}, 100)), nil); err != nil {
		t.Fatal(err)
	}
	if err := d.Persist(ItemKindSegment, 7, verifBytesItem(bytes.Repeat([]byte{'b'}, 10)), nil); err != nil {
		t.Fatal(err)
	}
	got, err := os.ReadFile(filepath.Join(dir, d.fileName(ItemKindSegment, 7)))
	if err != nil {
		t.Fatal(err)
	}
	if len(got) != 10 {
		t.Fatalf("REPLAY-CONFIRMED: file holds %d bytes after persisting 10 (stale tail of the previous file kept)", len(got))
	}
}
