package bluge

import (
	"context"
	"testing"
	"time"
)

// F11: a date range end point is handed on as the float64 whose BITS are the instant's nanoseconds.
// For the instant whose bits are +Inf's (0x7FF0000000000000 ns after the epoch, 2262-02-20T23:30:15.855405312Z)
// or -Inf's, the numeric range searcher takes the end point for an open end, so the range widens.
func TestVerifReplayF11(t *testing.T) {
	w, err := OpenWriter(InMemoryOnlyConfig())
	if err != nil {
		t.Fatal(err)
	}
	defer w.Close()
	bound := time.Unix(0, 0x7FF0000000000000).UTC()
	early := time.Date(2020, 1, 1, 0, 0, 0, 0, time.UTC)
	late := bound.Add(time.Hour)
	for id, when := range map[string]time.Time{"early": early, "late": late} {
		doc := NewDocument(id).AddField(NewDateTimeField("when", when))
		if err := w.Update(doc.ID(), doc); err != nil {
			t.Fatal(err)
		}
	}
	r, err := w.Reader()
	if err != nil {
		t.Fatal(err)
	}
	defer r.Close()
	count := func(end time.Time) (n int) {
		q := NewDateRangeQuery(early.Add(-time.Hour), end).SetField("when")
		it, err := r.Search(context.Background(), NewAllMatches(q))
		if err != nil {
			t.Fatal(err)
		}
		for m, err := it.Next(); m != nil && err == nil; m, err = it.Next() {
			n++
		}
		return n
	}
	// documents dated before `end`: only "early" for every end up to and including the boundary instant
	if a, b := count(bound.Add(-time.Nanosecond)), count(bound); a != b {
		t.Errorf("REPLAY-CONFIRMED: range ending 1ns before %v matches %d document(s), range ending at it matches %d (the end point was taken for an open end)", bound, a, b)
	}
}
