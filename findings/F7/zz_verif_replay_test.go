package index

import (
	"fmt"
	"testing"
	"time"
)

type verifFailingPolicy struct {
	*KeepNLatestDeletionPolicy
	calls *int
}

func (p verifFailingPolicy) Cleanup(dir Directory) error {
	_ = p.KeepNLatestDeletionPolicy.Cleanup(dir)
	*p.calls++
	if *p.calls > 1 { // the clean-up done while opening succeeds, later ones fail
		return fmt.Errorf("injected clean-up failure")
	}
	return nil
}

// F7: a deletion policy whose Cleanup reports an error makes the persister call
// s.config.AsyncError directly; with the default configuration that func is nil and the
// persister goroutine panics, taking the process down.
func TestVerifReplayF7(t *testing.T) {
	cfg, cleanup := CreateConfig("VerifReplayF7")
	defer func() { _ = cleanup() }()
	cfg.DeletionPolicyFunc = func() DeletionPolicy {
		return verifFailingPolicy{NewKeepNLatestDeletionPolicy(1), new(int)}
	}
	w, err := OpenWriter(cfg)
	if err != nil {
		t.Fatal(err)
	}
	doc := &FakeDocument{NewFakeField("_id", "1", true, false, false), NewFakeField("name", "test", false, false, true)}
	b := NewBatch()
	b.Update(testIdentifier("1"), doc)
	if err = w.Batch(b); err != nil {
		t.Fatal(err)
	}
	time.Sleep(300 * time.Millisecond)
	if err = w.Close(); err != nil {
		t.Fatal(err)
	}
}
