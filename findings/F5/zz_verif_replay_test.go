package highlight

import (
	"testing"

	"github.com/blugelabs/bluge/search"
)

func verifTry(f func()) (p interface{}) {
	defer func() { p = recover() }()
	f()
	return nil
}

// F5: highlighting must not panic whatever the locations are.
func TestVerifReplayF5(t *testing.T) {
	text := []byte("the quick brown fox")
	h := NewSimpleHighlighter(NewSimpleFragmenter(), NewHTMLFragmentFormatter(), "…")
	cases := map[string]search.TermLocationMap{
		"negative start": {"quick": {&search.Location{Pos: 1, Start: -3, End: 2}}},
		"end before start": {"quick": {&search.Location{Pos: 1, Start: 9, End: 4}}},
		"beyond the text": {"quick": {&search.Location{Pos: 1, Start: 4, End: 400}}},
		"negative end after a valid one": {"quick": {&search.Location{Pos: 1, Start: 4, End: 9}}, "fox": {&search.Location{Pos: 2, Start: 16, End: -1}}},
	}
	for name, tlm := range cases {
		if p := verifTry(func() { _ = h.BestFragments(tlm, text, 2) }); p != nil {
			t.Errorf("REPLAY-CONFIRMED: BestFragments panics on %s: %v", name, p)
		}
	}
}
