package index

import (
	"bytes"
	"encoding/binary"
	"fmt"
	"testing"
)

func verifTry(f func()) (p interface{}) {
	defer func() { p = recover() }()
	f()
	return nil
}

// F2: length fields of a snapshot file are trusted before anything is validated.
func TestVerifReplayF2(t *testing.T) {
	uv := func(x uint64) []byte {
		b := make([]byte, binary.MaxVarintLen64)
		return b[:binary.PutUvarint(b, x)]
	}
	// version 1, one segment, segment-type length 1<<62
	in := append(append(uv(1), uv(1)...), uv(1<<62)...)
	in = append(in, bytes.Repeat([]byte{0}, 16)...)
	if p := verifTry(func() { _, _ = (&Snapshot{}).ReadFrom(bytes.NewReader(in)) }); p != nil {
		t.Errorf("REPLAY-CONFIRMED: ReadFrom panics on a huge string length: %v", p)
	}
	// version 1, one segment, type "ice", ver 1, id 7, deleted-bitmap length 1<<63 (negative as int)
	in = append(append(uv(1), uv(1)...), uv(3)...)
	in = append(in, 'i', 'c', 'e', 0, 0, 0, 1)
	in = append(in, uv(7)...)
	in = append(in, uv(1<<63)...)
	in = append(in, bytes.Repeat([]byte{0}, 16)...)
	if p := verifTry(func() { _, _ = (&Snapshot{}).ReadFrom(bytes.NewReader(in)) }); p != nil {
		t.Errorf("REPLAY-CONFIRMED: ReadFrom panics on a huge deleted-bitmap length: %v", p)
	}
	_ = fmt.Sprint
}
